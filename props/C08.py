from vlib.spec import chx

EXPLANATION = ("CrossHair symbolic execution (z3) of the real servers_of_happiness / flow-network helpers: the relation bits, "
               "the dict insertion order and the peer labelling are symbolic; every path realises one relation "
               "(path-per-input, DESIGN 1.4) and is compared with a maximum-matching size decided by a separate z3 query "
               "(SAT size h, UNSAT size h+1).")
ASSUMPTIONS = [
    "path-per-input: relations are dict/set shaped, CrossHair realises every relation bit; 'Confirmed over all paths' is bounded-exhaustive over the stated peers x shares bound",
    "peer ids are distinct small ints, share ids small ints (optionally with holes); the code never inspects ids",
    "iteration order is varied through the share-key insertion order (permutations) and the build direction of the holder sets (peer ids collide in the set hash table, so set iteration follows insertion); a relabelling of peers is another relation and therefore already covered",
    "after every input bit is fixed by a solver-decided fork the real function runs on the realised input with opcode tracing off (identical result, ~1000x faster); helpers bfs/augmenting_path_for/residual_network/_flow_network run traced",
    "bfs/augmenting_path_for are checked on arbitrary digraphs without a direct source->sink edge, residual_network on digraphs without 2-cycles (both hold for every flow network built by this code: layered source/peers/shares/sink)",
]



def _split(nbits):
    out = []
    for i in range(2 ** nbits):
        b = [(i >> j) & 1 for j in range(nbits)]
        out.append({"fix": b, "_label": "".join(map(str, b))})
    return out


OBLIGATIONS = [
    chx("soh_max_matching", "C08_h", "h_soh",
        bounds={"quick": {"P": 3, "S": 3, "srev_only": [0, 5]}, "thorough": {"P": 4, "S": 4, "sorders": [0, 23], "srev_only": []}},
        cases={"quick": _split(3), "thorough": _split(5)},
        timeout={"quick": 150, "thorough": 1500},
        desc="happinessutil.servers_of_happiness (shares_by_server, _flow_network_for, _reindex, residual_network, augmenting_path_for, bfs) "
             "== z3-decided maximum matching for every relation within the bound; every share-key insertion order (thorough 4x4: the identity and the reversal, holder sets ascending, no holes), "
             "quick: holder sets built in both directions, share numbers with and without holes; argument not mutated",
        outside="relations beyond the stated bound (the property text also names seeded random 30x30 relations: not a solver technique)"),
    chx("soh_3x3_all_variants", "C08_h", "h_soh", tiers=("thorough",),
        bounds={"thorough": {"P": 3, "S": 3}}, cases={"thorough": _split(3)}, timeout={"thorough": 600},
        desc="3 servers x 3 shares: every insertion order, holder sets built in both directions and share numbers with holes under every order"),
    chx("soh_all_orders_3x4", "C08_h", "h_soh", tiers=("thorough",),
        bounds={"thorough": {"P": 3, "S": 4, "srev_only": []}}, cases={"thorough": _split(3)}, timeout={"thorough": 1500},
        desc="same as soh_max_matching for 3 servers x 4 shares under all 24 insertion orders (holder sets ascending, share numbers without holes)"),
    chx("merge_then_soh", "C08_h", "h_merge_soh",
        bounds={"quick": {"P": 2, "S": 2, "TP": 2}, "thorough": {"P": 3, "S": 3, "TP": 2}},
        cases={"thorough": _split(3)},
        timeout={"quick": 120, "thorough": 1200},
        desc="merge_servers(preexisting, trackers) is the union relation, leaves its argument alone, and servers_of_happiness of it is the maximum matching "
             "(the value the upload decision uses)"),
    chx("calc_mappings_matching", "C08_h", "h_calc_mappings",
        bounds={"quick": {"P": 3, "S": 3}, "thorough": {"P": 3, "S": 4}},
        cases={"quick": _split(2), "thorough": _split(3)},
        timeout={"quick": 150, "thorough": 1500},
        desc="happiness_upload._calculate_mappings/_servermap_flow_graph/_compute_maximum_graph/_convert_mappings with a servermap: the mapped part of the "
             "result is a matching inside the servermap of z3-decided maximum size, for every insertion order of the peer set; peers without shares and "
             "shares nobody holds stay None; calculate_happiness of it is its size"),
    chx("calc_mappings_complete", "C08_h", "h_calc_mappings_new",
        bounds={"quick": {"NP": 4, "NS": 4}, "thorough": {"NP": 5, "NS": 6}},
        timeout={"quick": 90, "thorough": 600},
        desc="_calculate_mappings without servermap (_flow_network): min(|peers|,|shares|) shares mapped to distinct peers (traced execution)"),
    chx("bfs", "C08_h", "h_bfs", bounds={"quick": {"N": 3}, "thorough": {"N": 4}}, timeout={"quick": 90, "thorough": 900},
        cases={"thorough": [{"src": i, "_label": "src%d" % i} for i in range(4)]},
        desc="happiness_upload.bfs on every digraph with N vertices, both adjacency orders, every source: predecessor table = shortest-path tree "
             "(oracle: relaxation distances; traced execution)"),
    chx("augmenting_path", "C08_h", "h_augpath", bounds={"quick": {"N": 3}, "thorough": {"N": 4}}, timeout={"quick": 90, "thorough": 900},
        desc="augmenting_path_for: False iff the sink is unreachable; otherwise a consecutive shortest edge path source->sink inside the graph (traced execution)"),
    chx("residual_network", "C08_h", "h_residual", timeout={"quick": 90, "thorough": 300},
        desc="residual_network on every 3-vertex digraph without 2-cycles and every 0/1 flow on its edges: residual edges = unused forward edges + "
             "reversed used edges, capacities +1/-1, arguments not mutated (traced execution)"),
]
