from vlib.spec import chx, pyob

ASSUMPTIONS = []
T = {"quick": 120, "thorough": 900}
OBLIGATIONS = [
    chx("write_nospan", "C39_h", "h_write0", timeout=T, desc="write with empty heap"),
    chx("write_1span", "C39_h", "h_write1", timeout=T, desc="write with one span"),
    chx("write_2span", "C39_h", "h_write2", timeout=T, desc="write with two spans"),
    chx("write_3span", "C39_h", "h_write3", timeout=T, desc="write with 3 spans"),
    chx("write_milestones", "C39_h", "h_write_milestones", timeout=T, desc=""),
    chx("write_inactive", "C39_h", "h_write_inactive", timeout=T, desc=""),
    chx("overwrite", "C39_h", "h_overwrite", timeout=T, desc=""),
    chx("overwrite_closed", "C39_h", "h_overwrite_closed", timeout=T, desc=""),
    chx("set_size", "C39_h", "h_set_size", timeout=T, desc=""),
    chx("read", "C39_h", "h_read", timeout=T, desc=""),
    chx("read_two_waiting", "C39_h", "h_read_two_waiting", timeout=T, desc=""),
    chx("read_closed", "C39_h", "h_read_closed", timeout=T, desc=""),
    chx("done_releases", "C39_h", "h_done_releases", timeout=T, desc=""),
    chx("history", "C39_h", "h_history", timeout=T, desc="",
        cases=[{"sched": i, "_label": s} for i, s in enumerate(["WWKK", "WKWK", "WKKW", "KWWK", "KWKW", "KKWW"])]),
]
