import itertools
from vlib.spec import chx, pyob

EXPLANATION = ("CrossHair symbolic execution (z3) of the real OverwriteableFileConsumer methods (frontends/sftpd.py): ONE operation "
               "(download chunk / client write / size change / read) from an arbitrary consistent consumer state with a universally "
               "quantified probe position; integers unbounded in the one-step obligations; temp file replaced by a recording fake "
               "holding provenance buffers; plus bounded 4-operation histories against a reference byte-array model.")
ASSUMPTIONS = [
    "abstraction relation (the inductive claim): position p of the temporary file is 'settled' (holds the byte the client must see) iff "
    "p < downloaded or p >= download_size or p lies in a pending-overwrite span; every step is shown to keep exactly this relation, "
    "so histories of any length are covered by induction on steps, not by enumeration",
    "pre-state invariant of the pending-overwrite heap: every span (s, e) has 0 <= s <= e and e >= downloaded (overwrite() queues only "
    "spans with e > downloaded; write() re-queues (next_downloaded, end) with end >= next_downloaded and leaves only spans starting at "
    "or after the new position); spans may overlap, nest and be empty; heap order holds; at most 2 spans (3 in the thorough tier)",
    "download_size <= current_size; downloaded may exceed download_size (last chunk overshoot / truncation)",
    "the download stream is sequential: the chunk delivered when downloaded == d carries download bytes [d, d+n)",
    "waiting readers: heap entries (index, sequence number, reader) with index > downloaded, index <= download_size and pairwise different sequence numbers "
    "(equal indices allowed); index <= download_size because read() queues min(offset+length, download_size) and the consumer's docstring forbids size "
    "changes while a read is waiting (observed, not claimed: with a waiting index > download_size _update_downloaded returns before its download_done check, "
    "so that reader is released only when the whole original download ends)",
    "byte contents abstracted to provenance (ProvBuf); the temporary file is a recording fake (EncryptedTemporaryFile not executed)",
    "foolscap eventual-send replaced by a recorder: a released reader is recorded with the file state at that moment (later file states only add settled bytes)",
    "logging removed (sftpd.noisy False, log statements stripped); consumer built with __new__",
]

# ---- case splits: relations over named integer terms; proved exhaustive by a z3 query (cases_exhaustive) ----
LT, EQ, GT, LE, GE = 0, 1, 2, 3, 4
W2_VARS = ["d", "d+n", "D", "s0", "e0", "s1", "e1"]
W3_VARS = W2_VARS + ["s2", "e2"]


def _prod(*alts):
    out = []
    for combo in itertools.product(*alts):
        rel = [list(r) for (r, _l) in combo]
        out.append({"rel": rel, "_label": ",".join(l for (_r, l) in combo)})
    return out


_s0_d = [((3, 0, LE), "s0<=d"), ((3, 0, GT), "s0>d")]
_e0_dn = [((4, 1, LT), "e0<d+n"), ((4, 1, GE), "e0>=d+n")]
_s1_e0 = [((5, 4, LE), "s1<=e0"), ((5, 4, GT), "s1>e0")]
_s1_dn = [((5, 1, LT), "s1<d+n"), ((5, 1, GE), "s1>=d+n")]
_s2_e0 = [((7, 4, LE), "s2<=e0"), ((7, 4, GT), "s2>e0")]
W2_CASES = _prod(_s0_d, _e0_dn)
W3_CASES = _prod(_s0_d, _e0_dn, _s1_e0, _s2_e0)
SPLITS = {"write_2span": (W2_VARS, W2_CASES), "write_3span": (W3_VARS, W3_CASES)}

H_SCHED = ["WWKK", "WKWK", "WKKW", "KWWK", "KWKW", "KKWW"]


def cases_exhaustive(ctx):
    """z3: for every case-split obligation the disjunction of its case predicates is valid (no state is left out),
    and every case is satisfiable together with the obligation's precondition."""
    import time
    import z3
    t0 = time.time()
    q = 0
    ops = {LT: lambda a, b: a < b, EQ: lambda a, b: a == b, GT: lambda a, b: a > b, LE: lambda a, b: a <= b, GE: lambda a, b: a >= b}
    for name, (vars_, cases) in SPLITS.items():
        d, n, D = z3.Ints("d n D")
        sp = z3.Ints("s0 e0 s1 e1 s2 e2")
        terms = [d, d + n, D] + sp[:len(vars_) - 3]
        pre = [0 <= d, d < D, n >= 0]
        for i in range(0, len(vars_) - 3, 2):
            pre += [0 <= sp[i], sp[i] <= sp[i + 1], sp[i + 1] >= d]
        disj = []
        for c in cases:
            conj = z3.And([ops[code](terms[i], terms[j]) for (i, j, code) in c["rel"]])
            disj.append(conj)
            s = z3.Solver()
            s.add(pre + [conj])
            q += 1
            if s.check() != z3.sat:
                return {"status": "inconclusive", "queries": q, "solver_s": time.time() - t0, "nonvacuous": False,
                        "info": "case %s of %s is empty" % (c["_label"], name)}
        s = z3.Solver()
        s.add(z3.Not(z3.Or(disj)))
        q += 1
        r = s.check()
        if r == z3.sat:
            m = s.model()
            return {"status": "violated", "queries": q, "solver_s": time.time() - t0, "nonvacuous": True, "model": str(m),
                    "replay_src": "import sys\nprint('case split of %s misses: %s')\nsys.exit(1)\n" % (name, str(m).replace("'", ""))}
        if r != z3.unsat:
            return {"status": "inconclusive", "queries": q, "solver_s": time.time() - t0, "nonvacuous": True, "info": "unknown"}
    return {"status": "discharged", "queries": q, "solver_s": round(time.time() - t0, 3), "nonvacuous": True,
            "info": "splits proved exhaustive: %s" % ", ".join("%s (%d cases)" % (k, len(v[1])) for k, v in SPLITS.items())}


T = {"quick": 150, "thorough": 900}
OBLIGATIONS = [
    chx("history", "C39_h", "h_history", timeout={"quick": 200, "thorough": 1200},
        bounds={"quick": {"int_max": 2, "exact_tail": True}, "thorough": {"int_max": 3}},
        cases={"quick": [{"sched": 0, "_label": "WWKK"}, {"sched": 4, "_label": "KWKW"}],
               "thorough": [{"sched": i, "_label": s} for i, s in enumerate(H_SCHED)]},
        desc="bounded histories: two client writes and the download in two chunks in each of the 6 interleavings, final temp file compared with the "
             "reference (original contents with the writes applied in order) at probe p; bug-finding complement of the one-step claim",
        outside="integers above the bound (quick: all sizes/offsets/lengths <= 2, second chunk ends exactly at the download size, 2 of the 6 "
                "interleavings; thorough: <= 3, overshooting last chunk, all 6); more than 2 writes / 2 chunks (covered inductively by the one-step obligations)"),
    chx("write_nospan", "C39_h", "h_write0", timeout=T,
        desc="OverwriteableFileConsumer.write/_update_downloaded, empty heap: bytes [d, min(d+n, download_size)) land at their own positions, "
             "nothing else written, downloaded == d+n, done iff complete"),
    chx("write_1span", "C39_h", "h_write1", timeout=T,
        desc="write with one arbitrary pending overwrite span: p receives download byte p iff d <= p < min(d+n, D) and p outside the span; "
             "everything else untouched; settled set afterwards == settled before + bytes written; heap invariant kept"),
    chx("write_2span", "C39_h", "h_write2", timeout=T, cases=W2_CASES,
        desc="same with two arbitrary pending spans (overlapping, nested, empty, adjacent): exercises the merge loop; unbounded integers; "
             "case split on s0<=d / e0<d+n (proved exhaustive by cases_exhaustive)"),
    chx("write_3span", "C39_h", "h_write3", timeout=T, cases=W3_CASES, tiers=("thorough",),
        desc="same with three pending spans (heap of 3)"),
    pyob("cases_exhaustive", "cases_exhaustive", timeout=60,
         desc="z3: the case predicates of every split obligation cover all states (disjunction valid) and none is empty"),
    chx("write_milestones", "C39_h", "h_write_milestones", timeout=T,
        cases=[{"nsp": 0, "nms": 1, "_label": "0span,1waiting"}, {"nsp": 0, "nms": 2, "_label": "0span,2waiting"},
               {"nsp": 1, "nms": 1, "_label": "1span,1waiting"},
               {"nsp": 1, "nms": 2, "swap": 0, "_label": "1span,2waiting,seq-in-order"},
               {"nsp": 1, "nms": 2, "swap": 1, "_label": "1span,2waiting,seq-swapped"}],
        desc="write/_update_downloaded with 0-1 span and 1-2 waiting readers: a reader waiting for m is released only when every position below "
             "min(m, D) is settled at that moment; no reader with m <= downloaded is left waiting; released exactly once; done exactly when complete"),
    chx("write_inactive", "C39_h", "h_write_inactive", timeout=T,
        desc="write after close or after the (possibly truncated) download size was reached: no file access, no state change"),
    chx("overwrite", "C39_h", "h_overwrite", timeout=T,
        cases=[{"nsp": 0, "_label": "0span"}, {"nsp": 1, "_label": "1span"}, {"nsp": 2, "_label": "2span"}],
        desc="overwrite (client write) from a state with 0-2 spans: data at [offset, offset+n), zero fill of [current_size, offset), nothing else; "
             "current_size = max; every written position the download has yet to pass is in a pending span afterwards; no span lost/invented; heap invariant kept"),
    chx("overwrite_closed", "C39_h", "h_overwrite_closed", timeout=T, desc="overwrite on a closed consumer raises SFTPError without effect"),
    chx("set_size", "C39_h", "h_set_size", timeout=T,
        desc="set_current_size with 0-1 span, 0-1 waiting reader: truncation removes exactly the bytes >= size, extension is zero-filled and protected, "
             "download_size = min(old, size), download marked done (readers released) iff downloaded >= new download_size"),
    chx("read", "C39_h", "h_read", timeout=T,
        desc="read/when_reached_or_failed: EOFError iff offset >= current_size; length clipped to current_size; returns immediately iff done or "
             "min(offset+length, D) <= downloaded, else waits on exactly that milestone; result is the file slice [offset, offset+length'); failed download => read fails"),
    chx("read_two_waiting", "C39_h", "h_read_two_waiting", timeout=T,
        desc="two reads outstanding at once, both waiting for the download: both are queued and each gets its own slice"),
    chx("read_closed", "C39_h", "h_read_closed", timeout=T, desc="close marks done with b'closed', closes the file; read afterwards raises SFTPError"),
    chx("done_releases", "C39_h", "h_done_releases", timeout=T,
        desc="download_done: first call wins, releases every waiting reader exactly once; later waiters are answered at once"),
]
