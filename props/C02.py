from vlib.spec import chx

EXPLANATION = ("CrossHair symbolic execution (z3) of the real downloader gate methods (immutable/downloader/share.py, node.py) and the real "
               "hashtree/DataSpans code on adversarial share images: header integers, hash values, hash numbers and content identities are "
               "symbolic; hashes are ideal (injective over integer ids).")
ASSUMPTIONS = [
    "ideal hash (collision-free, tags separate): pair_hash/empty_leaf_hash as in C35; block_hash, crypttext_segment_hash, uri_extension_hash "
    "map a symbolic content id injectively to a hash id",
    "share contents are an adversarial image: every integer field, hash slot and content range read by the code holds an unconstrained symbolic value",
    "pre-state of each Merkle tree: genuine root (from the validated UEB / validated share-hash leaf) + the reachable family proved inductive in C35",
    "Share._signal_corruption (message formatting + remote call) is a recorder; logging statements are stripped",
    "the gates are checked one call at a time (each from an arbitrary pre-state of its inputs); the Deferred-driven fetch loop, server selection and "
    "zfec decoding are outside (C01/C03/C36)",
]
T = {"quick": 120, "thorough": 1200}
OBLIGATIONS = [
    chx("offsets_gate", "C02_h", "h_offsets", timeout=T,
        desc="Share._satisfy_offsets on an adversarial header (version, both offset tables, amount received all symbolic): accepted => version in {1,2}, "
             "offsets are exactly the six fields of that version's table, share-hash region >=0 and a multiple of 34, block-hash region >=0 and a multiple of 32; "
             "malformed => LayoutInvalid + had_corruption; not yet arrived => False and nothing stored; consumed header bytes retired, the rest kept"),
    chx("ueb_gate", "C02_h", "h_ueb", timeout=T,
        desc="Share._satisfy_UEB -> DownloadNode.validate_and_store_UEB/_parse_and_store_UEB: accepted => the hashed bytes are the genuine UEB (hash == cap's), "
             "the same bytes are parsed, read from [uri_extension+fieldsize, +length); k/N from the cap; tree roots from that UEB; rejected => BadHashError, "
             "corruption signalled, node untouched (have_UEB False, no roots)"),
    chx("share_hashes_gate", "C02_h", "h_sharehashes", timeout=T,
        bounds={"quick": {"m_max": 2, "vtier": 1}, "thorough": {"m_max": 3, "vtier": 1}},
        cases={"quick": [{"n": 2, "_label": "N2"}] +
                        [{"n": 3, "shnum": s_, "m": 2, "xs": xs, "full": True, "_label": "N3_sh%d_m2_x%s" % (s_, "".join(map(str, xs)))}
                         for (s_, xs) in ((0, []), (2, [0]), (1, [0, 2]))],
               "thorough": [{"n": n, "_label": "N%d" % n} for n in (1, 2)] +
                           [{"n": n, "shnum": s_, "m": 2, "xs": xs, "full": True, "_label": "N%d_sh%d_m2_x%s" % (n, s_, "".join(map(str, xs)))}
                            for n in (3, 4) for s_ in range(n) for xs in ([], [0], [0, 1], [0, 2], [0, 1, 2])] +
                           [{"n": 3, "shnum": s_, "m": 3, "xs": xs, "full": True, "_label": "N3_sh%d_m3_x%s" % (s_, "".join(map(str, xs)))}
                            for s_ in (0, 2) for xs in ([], [0])]},
        desc="Share._satisfy_share_hash_tree + DownloadNode.process_share_hashes + real IncompleteHashTree: share-hash section of m (hashnum,hash) entries with symbolic "
             "numbers (0..tree size) and symbolic hash ids: accepted => every stored node genuine and needed_hashes(shnum)==0 implies the share's leaf is held and genuine; "
             "bad number/hash => BadHashError/NotEnoughHashesError, tree unchanged, corruption signalled for exactly the section; not arrived => False, nothing changed",
        outside="hash numbers above the tree size (the first out-of-range number is included); m > m_max entries; for N >= 3 the section has fully arrived"),
    chx("block_hashes_gate", "C02_h", "h_hashchain", timeout=T, bounds={"quick": {"which": "block", "vtier": 1}},
        cases={"quick": [{"n": n, "_label": "n%d" % n} for n in (2, 3)], "thorough": [{"n": n, "_label": "n%d" % n} for n in (2, 3, 4)]},
        desc="Share._satisfy_block_hash_tree + CommonShare.get_needed_block_hashes/process_block_hashes: every tree node slot of the share holds a symbolic hash; "
             "accepted => the needed hashes equal the genuine nodes, tree genuine, nothing more needed; rejected => tree unchanged + corruption signalled; "
             "partially arrived => False and nothing consumed"),
    chx("ciphertext_hashes_gate", "C02_h", "h_hashchain", timeout=T, bounds={"quick": {"which": "ct", "vtier": 1}},
        cases={"quick": [{"n": n, "_label": "n%d" % n} for n in (2, 4)], "thorough": [{"n": n, "_label": "n%d" % n} for n in (2, 3, 4)]},
        desc="same for Share._satisfy_ciphertext_hash_tree + DownloadNode.get_needed_ciphertext_hashes/process_ciphertext_hashes"),
    chx("data_block_gate", "C02_h", "h_datablock", timeout=T,
        cases={"quick": [{"n": n, "_label": "n%d" % n} for n in (1, 3)], "thorough": [{"n": n, "_label": "n%d" % n} for n in (1, 2, 3, 4)]},
        desc="Share._satisfy_data_block + CommonShare.check_block (symbolic data offset, block sizes, amount received, block content id): COMPLETE only with the block whose "
             "hash is the genuine leaf, the delivered object is exactly the hashed range [data+segnum*block_size,+len) (tail length for the last segment); otherwise CORRUPT "
             "without data + corruption signalled + tree unchanged; each observer notified once; request retired; nothing happens before the block has fully arrived"),
    chx("ciphertext_segment_gate", "C02_h", "h_ctseg", timeout=T,
        cases={"quick": [{"n": n, "_label": "n%d" % n} for n in (1, 4)], "thorough": [{"n": n, "_label": "n%d" % n} for n in (1, 2, 3, 4)]},
        desc="DownloadNode._check_ciphertext_hash: returns (segnum*segment_size, the same segment) only if its hash is the genuine ciphertext leaf; else BadCiphertextHashError, tree unchanged"),
    chx("deliver_gate", "C02_h", "h_deliver", timeout=T,
        desc="DownloadNode.process_blocks/_deliver/_extract_requests: every waiting request for the segment gets the validated segment, or (decode error / bad ciphertext hash) "
             "the Failure and no data; cancelled requests and requests for other segments are not fired"),
    chx("block_root_link", "C02_h", "h_rootlink", timeout=T,
        cases={"quick": [{"n": n, "_label": "N%d" % n} for n in (1, 3)], "thorough": [{"n": n, "_label": "N%d" % n} for n in (1, 2, 3, 4)]},
        desc="Share._get_satisfaction: the block hash tree root is set only when the share hash chain of this share is complete, and then to the validated leaf "
             "share_hash_tree.get_leaf(shnum)"),
    chx("loop_abandon", "C02_h", "h_loop", timeout=T,
        desc="Share.loop/_fail: BadHashError, NotEnoughHashesError, LayoutInvalid, DataUnavailable from the satisfy/desire pass kill the share (DEAD to every observer, "
             "no further loop passes, late data ignored)"),
]
