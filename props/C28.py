from vlib.spec import chx

EXPLANATION = ("CrossHair symbolic execution (z3) of the real StorageServer.allocate_buckets / allocated_size / get_available_space / "
               "bucket_writer_closed with real BucketWriters on the in-memory file model; free space, uploads in progress, requested "
               "size and the per-share situation are symbolic.")
ASSUMPTIONS = [
    "fileutil.get_available_space as seen by storage/server.py returns a symbolic number (already net of reserved_space); the statvfs "
    "arithmetic itself is `disk_stats` with os.statvfs replaced by symbolic numbers (f_frsize 512 or 4096)",
    "uploads in progress for other storage indexes are modelled by objects with a symbolic allocated_size()",
    "one request at a time; share numbers 0..1 (quick) / 0..2 (thorough)",
    "platforms without any disk-statistics API (get_available_space() is None: no limit enforced) are outside the claim",
]
T = {"quick": 120, "thorough": 900}
BD = {"quick": {"size_max": 2**40}, "thorough": {"size_max": 2**62}}
OBLIGATIONS = [
    chx("allocate", "C28_h", "h_allocate", timeout=T,
        bounds={"quick": {"size_max": 2**40, "nsh": 2}, "thorough": {"size_max": 2**62, "nsh": 3}},
        cases={"quick": None, "thorough": [{"s0": [x, i, r], "_label": "s0-%d%d%d" % (x, i, r)}
                                          for (x, i, r) in ((0, 0, 0), (0, 0, 1), (1, 0, 0), (1, 0, 1), (0, 1, 0), (0, 1, 1))]},
        desc="allocate_buckets: per share number stored? / being uploaded? / requested?; 0..2 uploads in progress; free space, size >= 0, "
             "read-only flag. Writers only for requested shares that are neither stored nor in incoming/; alreadygot == all stored "
             "shares; k accepted writers satisfy k*size <= max(0, free - in progress); a candidate is refused only if one more does "
             "not fit; read-only => none; allocated_size() == in progress + k*size; NoSpace only when a stored share's lease renewal "
             "does not fit and then nothing is reserved"),
    chx("release", "C28_h", "h_release", bounds=BD, timeout=T,
        desc="two accepted uploads, one ends by close / abort / timeout / disconnect: allocated_size() drops to the other one's size, "
             "the right entry leaves _bucket_writers, and the next allocation is decided against free space minus that one upload"),
    chx("disk_stats", "C28_h", "h_disk_stats", bounds=BD, timeout=T,
        cases=[{"frsize": 512, "_label": "frsize512"}, {"frsize": 4096, "_label": "frsize4096"}],
        desc="StorageServer.get_available_space -> fileutil.get_available_space/get_disk_stats: max(0, f_frsize*f_bavail - reserved); 0 "
             "when read-only or when statvfs fails"),
]
