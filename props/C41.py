from vlib.spec import chx

EXPLANATION = ("CrossHair (z3) exploration of requests against the real web-API resource tree (URIHandler -> DirectoryNodeHandler / FileNodeHandler / "
               "PlaceHolderNodeHandler / UnknownNodeHandler, MoreInfo, the JSON / HTML / manifest / deep-stats renderers, render_exception / "
               "exception_to_child, twisted.web's getChildForRequest and Request.render) on real DirectoryNode / NodeMaker / MutableFileNode / "
               "MutableFileVersion objects over an in-memory grid.  The request (capability used, path shape, method, t= operation and its arguments, "
               "replace= / format= values, child kind, link metadata, warm or cold gateway node cache) is chosen by symbolic selectors: path-per-input, the "
               "engine explores every selector combination within the bounds and the solver decides the selector arithmetic; once a path has fixed "
               "all selectors the real code runs on concrete values with opcode tracing switched off (the web stack costs 5-10 s per request under tracing).")
TECHNIQUE = ("path-per-input symbolic execution (CrossHair + z3): the request is chosen by symbolic selectors, the solver decides the selector "
             "arithmetic and the engine covers every selector combination within the bounds; each path then runs the real web-API code on concrete "
             "values (tracing off); reachability twin per obligation; concrete replay of counterexamples")
LEVEL_NOTE = ("Partial claim over a bounded request matrix: no symbolic data flows through the web code itself (names, bodies, key material and metadata "
              "values are fixed), so within the bounds the verdict is exhaustive over request shapes only. Trusted: CrossHair 0.0.110 path exploration, z3 5.1, "
              "the in-memory grid stand-ins listed in the evidence file.")
ASSUMPTIONS = [
    "PARTIAL claim.  Covered: every request shape listed in the obligations, on trees of depth <= 3 built from 15 capability kinds (CHK, LIT, SSK rw/ro, MDMF rw/ro, "
    "DIR2 rw/ro, DIR2-MDMF rw/ro, DIR2-CHK, DIR2-LIT, unknown rw+ro / ro. / imm.) with SDMF and MDMF directories.  Key material, names ('new', 'leaf', ...), "
    "bodies and the four metadata shapes are fixed concrete values; they are not quantified over",
    "the network below the nodes is an in-memory grid (harness/_webfix.py): one slot per mutable storage index holding the write-enabler master and the readkey, "
    "immutable objects by cap; ServerMap / ServermapUpdater / Retrieve / Publish of allmydata.mutable.filenode, the uploader and mutable-file creation are stand-ins; "
    "the grid refuses a write whose writekey does not match (as storage servers do) and LOGS every attempt - the obligations demand that no attempt is made at all, "
    "so the refusal is the web/dirnode layer's and not the stand-in's",
    "'refused' means an HTTP status in 400..599.  The code answers almost every such request with 500 (NotWriteableError and the assertions in MutableFileVersion "
    "are not mapped by humanize_exception; a failing getChild builds ErrorPage(None, ...) which twisted turns into a 500), 400 for PUT on a read-only mutable file, "
    "404/405/501 through a verify cap (UnknownNodeHandler has only GET).  No particular code is demanded",
    "requests are built on the real webish.TahoeLAFSRequest class with method / args / fields / content / postpath set directly and are served the way "
    "Request.process does (site.getResourceFor + render + processingFailed) from the real web.root.Root resource (/uri, /cap, /file, /named, /private); HTTP parsing "
    "(requestReceived, FieldStorage, URL unquoting) and the operations table (/operations/<handle>: the registered result renderers are rendered directly) are outside",
    "write secrets are searched as base32 key fields / unknown-format write caps in the raw response bytes (headers and body, also URL-unquoted once and twice); "
    "confidentiality of the directory's encrypted write-cap field is C18's subject",
    "t=check / deep-check / repair requests (add-lease and repair do write to the grid with whatever authority the gateway holds) and SFTP are outside; "
    "concurrent requests are outside (one request at a time, eventual-send queue drained after each)",
]
T = {"quick": 150, "thorough": 1200}


def _c(label, **kw):
    kw["_label"] = label
    return kw


OBLIGATIONS = [
    chx("ro_listing", "C41_h", "h_ro_listing", timeout=T,
        cases={"quick": [_c("sdmf-ro-cold", access=[0], md=[2, 3], warm=[0]), _c("sdmf-ro-warm", access=[0], md=[3], warm=[1]),
                         _c("mdmf-ro", access=[1], md=[0, 1], warm=[1]), _c("imm", access=[2], md=[0, 2])],
               "thorough": [_c("sdmf-ro", access=[0]), _c("mdmf-ro", access=[1]), _c("imm", access=[2])]},
        desc="GET t=json / info / uri / readonly-uri / (HTML page) / rename-form and POST t=stream-manifest / start-manifest / start-deep-stats / start-deep-size "
             "(+ every output format of the registered result renderers) on a directory holding one child of each of the 15 cap kinds, on each child and on a grandchild "
             "of each child directory, addressed through the directory's READ-ONLY cap (SDMF, MDMF) or as an immutable directory, 4 link-metadata shapes (incl. 'no-write' "
             "and HTML-special characters), cold gateway and gateway whose node cache was just used by the write-cap holder for the same requests: the raw response contains no "
             "write secret of any object of the tree and no rw_uri field; the grid is unchanged and no write reaches the storage layer",
        outside="t=check / deep-check; other response channels (logs, status pages)"),
    chx("rw_listing", "C41_h", "h_rw_listing", timeout=T,
        desc="control for ro_listing: through the WRITE cap t=json shows exactly the stored write cap of every child (rw_uri present iff the child has one) and the directory's own; "
             "the read-only slots of the answer (ro_uri, verify_uri, t=readonly-uri) never carry a write secret"),
    chx("ro_modify", "C41_h", "h_ro_modify", timeout=T,
        cases={"quick": [_c("shape%d" % s, shape=[s], ri=([0, 3] if s < 3 else [0]), when_done=[0]) for s in range(6)],
               "thorough": [_c("shape%d-%s" % (s, "mdmf" if m else "sdmf"), shape=[s], mdmf=[m]) for s in range(6) for m in (0, 1)]},
        desc="42 modifying requests (POST t=mkdir / mkdir-with-children / mkdir-immutable / upload (CHK, SDMF, MDMF; new, existing mutable, existing immutable) / uri / delete / unlink / "
             "rename / relink to a writeable directory / set_children / set-children; PUT of a new child (CHK, format=, mutable=), of an existing mutable child (also offset=), of an "
             "existing immutable child, t=uri, t=mkdir; POST child t=mkdir*; PUT through a missing intermediate directory; DELETE; the same one level deeper; t= with surrounding blanks; "
             "linking a write cap; mkdir format=mdmf) x replace= absent / "
             "true / false / only-files / TRUE / bogus x when_done x cold/warm gateway x SDMF/MDMF, on a directory D reached (0) below a root addressed by its read-only cap, (1) by a "
             "read-only link in a writeable root, (2) by its own read-only cap, (3,5) as an immutable directory below a writeable / read-only root, (4) by its verify cap, routed from the real Root resource through /uri "
             "(SDMF tree) and its alias /cap (MDMF tree): the answer "
             "is an error (400..599), every pre-existing object of the grid is byte-identical afterwards and no write attempt reaches the storage layer"),
    chx("rw_modify", "C41_h", "h_rw_modify", timeout=T,
        desc="control for ro_modify: each of the 42 requests, sent along a path whose directories are all writeable, is carried out (2xx/3xx, when_done redirects POSTs) and changes the grid"),
    chx("ro_new_objects", "C41_h", "h_ro_new_objects", timeout=T,
        cases={"quick": [_c("all", ri=[0], when_done=[0], warm=[0])], "thorough": [_c("all", ri=[0, 2], when_done=[0], warm=[0, 1])]},
        desc="second half of 'changes nothing on the grid' for the requests of ro_modify: a refused request has not put NEW objects (an uploaded immutable file, a freshly created mutable "
             "slot) on the grid either"),
    chx("ro_file", "C41_h", "h_ro_file", timeout=T,
        cases={"quick": [_c("q", ri=[0, 3])], "thorough": [_c("sdmf", mdmf=[0]), _c("mdmf", mdmf=[1])]},
        desc="PUT (whole file, offset=0, offset=4, format=mdmf), POST t=upload (with/without when_done), PUT t=uri, DELETE x replace= values x SDMF/MDMF x cold/warm gateway on a FILE addressed "
             "(0) by its read-only cap, (1) by a read-only link in a writeable directory (content operations only: replacing or removing the link is within the authority used), (2) as a "
             "writeable file below a read-only directory, (3) read-only link below a read-only directory, (4) by its verify cap, (5) immutable file by cap, (6) immutable file in an "
             "immutable directory, (7) literal file, (8,9) through the download-only routes /file/<cap>/<name> and /named/<cap>/<name>: error answer, pre-existing objects byte-identical, no write attempt at the storage layer"),
    chx("rw_file", "C41_h", "h_rw_file", timeout=T,
        desc="control for ro_file: on a writeable file in a writeable directory the content operations succeed and change exactly that file's slot to the expected bytes "
             "(offset writes splice), PUT t=uri / DELETE change exactly the parent directory"),
    chx("private_token", "C41_h", "h_private_token", timeout=T,
        cases={"quick": [_c("q", p=[0, 1, 17, 38, 39])], "thorough": [_c("all")]},
        desc="the /private subtree of the real Root resource (twisted.web.guard.HTTPAuthSessionWrapper + web.private.TokenChecker / Token / TokenCredentialFactory / PrivateRealm, real "
             "timing_safe_compare): GET / POST / PUT / DELETE /private/logs with an Authorization header built from a scheme (tahoe-lafs in 3 spellings, Basic, tahoe-lafs2, empty) and the "
             "token itself, the token with one byte changed at position p, a proper prefix of length p, one byte longer, trailing blank, leading blank, case-swapped, repeated, or no header: "
             "answered 401 unless the scheme is tahoe-lafs (any case) and the token is exactly the node's; the exact token is admitted",
        outside="how the token file is created and protected on disk; the websocket log stream behind /private/logs/v1"),
    chx("relink_into", "C41_h", "h_relink_into", timeout=T,
        desc="POST t=relink from a WRITEABLE source directory (root, D via root, D by write cap) with to_dir= naming a destination without write authority (read-only cap, path through a "
             "read-only root, read-only link below a writeable root, immutable directory by cap and by path, verify cap, a file) x replace= values x SDMF/MDMF: error answer, nothing "
             "changes (in particular the source keeps its child), no write attempt; control: a writeable destination succeeds"),
]
