from vlib.spec import chx

EXPLANATION = ("CrossHair symbolic execution (z3) of the real LeaseCheckingCrawler (constructor, process_share, process_bucket, "
               "space counters), the real LeaseInfo age/renewal accessors and the real ShareFile/MutableShareFile.cancel_lease "
               "on in-memory share containers, for symbolic clock, lease expiry times and policy configuration; integers unbounded.")
ASSUMPTIONS = [
    "every lease was granted for 31 days (renewal time := expiration_time - 31 days), as LeaseInfo.get_grant_renew_time_time assumes; expiration_time >= 31 days so that the renewal time is >= 0",
    "integer-valued monotone clock; 'now' of the documented predicate is any instant between the first and the last clock read of one process_share call",
    "share containers are in-memory (disk primitives of ShareFile/MutableShareFile replaced); cancel secrets of the leases of one share are pairwise distinct",
    "lease-age histogram (float bucket arithmetic) is replaced by a recorder",
]
T = {"quick": 120, "thorough": 1200}
_CASES = [{"policy": p, "enabled": e, "_label": "%s-%s" % (("age", "age_override", "cutoff")[p], "on" if e else "off")}
          for p in (0, 1, 2) for e in (True, False)]
OBLIGATIONS = [
    chx("process_share", "C26_h", "h_process_share",
        bounds={"quick": {"n_max": 2, "other_type_symbolic": False}, "thorough": {"n_max": 3, "other_type_symbolic": True}},
        cases=_CASES,
        timeout=T,
        desc="LeaseCheckingCrawler.__init__ + process_share + LeaseInfo.get_age/get_grant_renew_time_time + real cancel_lease: "
             "cancelled leases == leases expired under the documented policy (age: renewal+duration(31d|override) < now; cutoff: renewal < cutoff) "
             "and only if enabled and the share type is selected; share unlinked iff all leases cancelled; removable/actual/original reports and "
             "space-recovered counters agree",
        outside="shares with zero leases are reported as recovered but never unlinked (cancel_lease is never called for them)"),
]
