from vlib.spec import chx

EXPLANATION = ("CrossHair symbolic execution (z3) of the real LeaseCheckingCrawler (constructor, process_share, process_bucket, "
               "space counters), the real LeaseInfo age/renewal accessors and the real ShareFile/MutableShareFile.cancel_lease "
               "on in-memory share containers, for symbolic clock, lease expiry times and policy configuration; integers unbounded.")
ASSUMPTIONS = [
    "every lease was granted for 31 days (renewal time := expiration_time - 31 days), as LeaseInfo.get_grant_renew_time_time assumes; expiration_time >= 31 days so that the renewal time is >= 0",
    "integer-valued monotone clock; 'now' of the documented predicate is any instant between the first and the last clock read of one process_share call",
    "share containers are in-memory (disk primitives of ShareFile/MutableShareFile replaced); cancel secrets of the leases of one share are pairwise distinct",
    "lease-age histogram (float bucket arithmetic) is replaced by a recorder",
    "two_cycles_mutable runs on the fake file system of harness/_sharefix.py (real MutableShareFile lease-slot code); cycle_deletes_expired reuses the crawl "
    "skeleton of harness/C27_h.py (3 prefixes, in-memory state files, jump-index clock, permuted directory listings); that every bucket is visited in every "
    "cycle under interruptions, kills and restarts is C27",
]
T = {"quick": 120, "thorough": 1500}
_CASES = [{"policy": p, "enabled": e, "_label": "%s-%s" % (("age", "age_override", "cutoff")[p], "on" if e else "off")}
          for p in (0, 1, 2) for e in (True, False)]
OBLIGATIONS = [
    chx("process_share", "C26_h", "h_process_share",
        bounds={"quick": {"n_max": 2, "other_type_symbolic": False}, "thorough": {"n_max": 3, "other_type_symbolic": True}},
        cases={"quick": _CASES,
               "thorough": [dict(c, n_min=0, n_max=2, other_type_symbolic=True, _label=c["_label"] + "-n012") for c in _CASES]
                           + [dict(c, n_min=3, n_max=3, other_type_symbolic=False, _label=c["_label"] + "-n3") for c in _CASES]},
        timeout=T,
        desc="LeaseCheckingCrawler.__init__ + process_share + LeaseInfo.get_age/get_grant_renew_time_time + real cancel_lease: "
             "cancelled leases == leases expired under the documented policy (age: renewal+duration(31d|override) < now; cutoff: renewal < cutoff) "
             "and only if enabled and the share type is selected; share unlinked iff all leases cancelled; removable/actual/original reports and "
             "space-recovered counters agree",
        outside="shares with zero leases are reported as recovered but never unlinked (cancel_lease is never called for them)"),
    chx("process_bucket", "C26_h", "h_process_bucket",
        cases=[{"policy": p, "_label": ("age", "age_override", "cutoff")[p]} for p in (0, 1, 2)],
        timeout=T,
        desc="LeaseCheckingCrawler.process_bucket over a bucket with two shares (one lease each), a non-share entry and an optionally corrupt share: "
             "exactly the numeric entries are examined; each share deleted only if expired+enabled+selected and always if so; corrupt share "
             "recorded and kept; actual-buckets counts the bucket iff all its shares were deleted; actual-shares == number deleted",
        outside="bucket directory removal itself (done by the storage server, not the crawler)"),
    chx("two_cycles_mutable", "C26b_h", "h_two_cycles_mutable",
        cases={"quick": [{"version": 2, "slot_b": 1, "cutoff_mode": False, "_label": "v2-age-slot1"},
                         {"version": 1, "slot_b": 2, "cutoff_mode": True, "_label": "v1-cutoff-slot2"}],
               "thorough": [{"version": v, "cutoff_mode": m, "_label": "v%d-%s" % (v, "cutoff" if m else "age")}
                            for v in (1, 2) for m in (False, True)]},
        timeout=T,
        desc="LeaseCheckingCrawler.process_share in two successive cycles (clock t1 <= t2) on a real MutableShareFile container (fake file system): "
             "lease A in header slot 0, lease B in slot 1..3, symbolic expiries, age or cutoff policy: each cycle sees exactly the leases still on the "
             "share (real get_leases/_enumerate_leases/_read_lease_record over blanked slots), cancels exactly the expired ones in place, and the share is "
             "unlinked exactly when no unexpired lease remains - never while B is valid after A was cancelled",
        outside="extra-lease area (5th and later leases), container resizing (C23/C25/C29)"),
    chx("immutable_cycle", "C26b_h", "h_immutable_cycle",
        cases={"quick": [{"version": 2, "cutoff_mode": False, "n_min": 2, "n_max": 2, "_label": "v2-age-n2"},
                         {"version": 1, "cutoff_mode": True, "n_min": 3, "n_max": 3, "_label": "v1-cutoff-n3"}],
               "thorough": [{"version": v, "cutoff_mode": m, "_label": "v%d-%s" % (v, "cutoff" if m else "age")} for v in (1, 2) for m in (False, True)]},
        timeout=T,
        desc="LeaseCheckingCrawler.process_share on a real immutable ShareFile container (fake file system; real constructor, get_leases, cancel_lease called once "
             "per expired lease on the one object opened for the share): 1-3 leases with symbolic expiries: the unexpired leases stay in order with the "
             "right header count, and the share file is unlinked in this very cycle iff every lease expired",
        outside="crash windows inside cancel_lease (C29)"),
    chx("cutoff_date_tz", "C26_h", "h_cutoff_date_tz", timeout=T,
        desc="expire.cutoff_date = 2009-01-16 read through the real config path and the REAL time_format.parse_date with the process time zone set to one of "
             "UTC, US Pacific (with and without DST rules), UTC+9, UTC+5:30, UTC+13: the crawler's cutoff is 2009-01-16T00:00:00Z exactly, and a one-lease "
             "share is deleted iff its renewal time is before that instant",
        outside="other date strings / malformed dates (C48)"),
    chx("cycle_deletes_expired", "C26c_h", "h_cycle_deletes_expired",
        bounds={"quick": {"J": 30}, "thorough": {"J": 40}},
        cases={"quick": [{"layout": [["aa1", "aa2"], [], ["ac1"]], "_label": "L"}],
               "thorough": [{"layout": [["aa1", "aa2", "aa3"], [], ["ac1"]], "_label": "L"},
                            {"prefixes": ["aa", "bq", "b3"], "layout": [["aa1"], ["bqx", "bqy"], ["b3a"]], "_label": "digit-prefix"}]},
        timeout=T,
        desc="one complete crawl cycle of the real LeaseCheckingCrawler (C27's slice/state skeleton, expiration enabled) over buckets whose directory "
             "listings come in an arbitrary (symbolic) order, with one time-slice interruption at any clock read: every share whose only lease has "
             "expired is deleted within that cycle, the share with a valid lease (symbolic choice) is kept, each share examined once, history counters agree",
        outside="container-level lease removal (process_share obligation, C25); kills / restarts (C27)"),
    chx("config_policy", "C26_h", "h_config_policy",
        cases=[{"md": 0, "_label": "nomode"}, {"md": 1, "ov": False, "_label": "age"}, {"md": 1, "ov": True, "_label": "age-override"},
               {"md": 2, "_label": "cutoff"}, {"md": 3, "_label": "bogus"}],
        bounds={"quick": {"explicit_true": False}, "thorough": {"explicit_true": True}},
        timeout=T,
        desc="client._Client.get_anonymous_storage_server (expire.* options read through the real _Config/configparser) -> real "
             "StorageServer.__init__ -> LeaseCheckingCrawler.__init__ -> process_share on a one-lease share: expire.enabled defaults to off and then "
             "nothing is deleted; mode required when enabled; unknown mode / cutoff mode without date rejected; expire.immutable/mutable filters; "
             "override only used in age mode; deletion iff documented predicate",
        outside="parse_duration / parse_date (C48) are replaced by carriers of symbolic integers; docs say override_lease_duration is *rejected* in "
                "cutoff-date mode and cutoff_date in age mode, the code silently ignores them (not part of the property statement)"),
]
