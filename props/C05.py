from vlib.spec import chx, pyob

EXPLANATION = ("CrossHair symbolic execution (z3) of the real Uploader.upload, LiteralUploader, FileHandle key derivation and EncryptAnUploadable "
               "chunking with recorder hashers/ciphers and provenance buffers; cvc5 string-theory query for injectivity of the convergence tag construction.")
ASSUMPTIONS = [
    "SHA-256d and AES are ideal: the key is determined by (and only by) the hasher's constructor arguments and the concatenation of its update() "
    "arguments; identity cipher records the stream",
    "plaintext abstracted to provenance (ProvBuf); files are fakes with symbolic short reads",
    "encoding parameters (k, happy, n, segsize) of the upload are taken as given in convergent_key (their derivation from the configuration is C01)",
    "'%d' renders distinct integers as distinct canonical digit strings",
    "literal cap string formatting / parsing is C15/C38; here the LiteralFileURI constructor argument is observed",
]


def _model_tag(prefix, k, n, seg, conv):
    """the documented construction: PREFIX + netstring(secret) + netstring(b"k,n,segsize")"""
    def ns(x):
        return b"%d:%s," % (len(x), x)
    return prefix + ns(conv) + ns(b"%d,%d,%d" % (k, n, seg))


def tag_injective(ctx):
    """cvc5 (strings): netstring(tag(k,n,segsize,secret)) + data is injective in (k, n, segsize, secret, data);
    the string model is first checked against the live hashutil functions on a corpus."""
    import hashlib
    import time
    from vlib import hlib
    hlib.ensure_shims()
    from allmydata.util import hashutil
    hlib.encoded(hashutil._convergence_hasher_tag, hashutil.convergence_hasher, hashutil.tagged_hasher, hashutil.netstring)
    t0 = time.time()
    prefix = hashutil.CONVERGENT_ENCRYPTION_TAG
    corpus = []
    for (k, n) in ((1, 1), (1, 2), (3, 10), (9, 10), (10, 10), (25, 100), (255, 256), (256, 256), (1, 256)):
        for seg in (1, 9, 10, 11, 99, 100, 131072, 131073, 2 ** 40):
            for conv in (b"", b"x", b"1:2,", b",3,10,", b"A" * 32, bytes(range(32)), b"9" * 40):
                corpus.append((k, n, seg, conv))
    seen = {}
    for (k, n, seg, conv) in corpus:
        real = hashutil._convergence_hasher_tag(k, n, seg, conv)
        if real in seen and seen[real] != (k, n, seg, conv):
            a, b = seen[real], (k, n, seg, conv)
            src = ("import sys\nsys.path.insert(0, '/verif')\nfrom vlib import hlib\nhlib.ensure_shims()\n"
                   "from allmydata.util import hashutil\na = %r\nb = %r\n"
                   "ta = hashutil._convergence_hasher_tag(*a)\ntb = hashutil._convergence_hasher_tag(*b)\n"
                   "print(a, b, ta, tb)\nsys.exit(1 if ta == tb else 0)\n" % (a, b))
            return {"status": "violated", "queries": 0, "solver_s": 0, "nonvacuous": True, "model": repr((a, b)), "replay_src": src}
        seen[real] = (k, n, seg, conv)
        if real != _model_tag(prefix, k, n, seg, conv):
            return {"status": "inconclusive", "queries": 0, "solver_s": 0, "nonvacuous": False,
                    "info": "string model does not describe hashutil._convergence_hasher_tag any more (input %r)" % ((k, n, seg, conv),)}
        # hasher protocol: SHA256d over netstring(tag) + data, truncated to 16 bytes
        h = hashutil.convergence_hasher(k, n, seg, conv)
        h.update(b"some")
        h.update(b"data")
        want = hashlib.sha256(hashlib.sha256(b"%d:%s," % (len(real), real) + b"somedata").digest()).digest()[:16]
        if h.digest() != want:
            return {"status": "inconclusive", "queries": 0, "solver_s": 0, "nonvacuous": False,
                    "info": "convergence_hasher is not SHA256d(netstring(tag) + data)[:16] any more"}
    from cvc5.pythonic import (String, StringVal, Concat, Union, Re, Range, Star, InRe, Length, StrToInt, Solver, Or, unsat, sat)
    bnd = ctx["bounds"]
    canon = Union(Re("0"), Concat(Range("1", "9"), Star(Range("0", "9"))))
    results = []
    q = 0
    for variant in ("real", "broken"):
        cons = []

        def ns(s, nm, maxdigits):
            d = String("len_" + nm)
            cons.extend([InRe(d, canon), Length(d) <= maxdigits, StrToInt(d) == Length(s)])
            return Concat(d, StringVal(":"), s, StringVal(","))

        def dec(name, maxlen):
            v = String(name)
            cons.extend([InRe(v, canon), Length(v) <= maxlen])
            return v

        def inst(i):
            k = dec("k%d" % i, 3)
            n = dec("n%d" % i, 3)
            g = dec("g%d" % i, bnd.get("seg_digits", 12))
            conv = String("conv%d" % i)
            data = String("data%d" % i)
            cons.extend([Length(conv) <= bnd.get("secret_max", 40), Length(data) <= bnd.get("data_max", 8)])
            param = Concat(k, StringVal(","), n, StringVal(","), g)
            if variant == "real":
                tag = Concat(StringVal(prefix.decode("ascii")), ns(conv, "conv%d" % i, 2), ns(param, "param%d" % i, 2))
            else:
                # sanity of the query itself: with the three numbers run together ("%d%d%d") the construction is NOT injective
                param = Concat(k, n, g)
                tag = Concat(StringVal(prefix.decode("ascii")), ns(conv, "conv%d" % i, 2), ns(param, "param%d" % i, 2))
            return (k, n, g, conv, data), Concat(ns(tag, "tag%d" % i, 3), data)
        a, ha = inst(1)
        b, hb = inst(2)
        s = Solver()
        s.add(cons)
        s.add(ha == hb)
        s.add(Or([x != y for x, y in zip(a, b)]))
        r = s.check()
        q += 1
        results.append((variant, str(r)))
    ok = results[0][1] == "unsat" and results[1][1] == "sat"
    return {"status": "discharged" if ok else "inconclusive", "queries": q, "solver_s": round(time.time() - t0, 2), "nonvacuous": results[1][1] == "sat",
            "info": "cvc5: %r; decimal rendering of distinct integers is distinct (canonical digit strings)" % (results,)}


T = {"quick": 120, "thorough": 900}
OBLIGATIONS = [
    chx("literal_threshold", "C05_h", "h_literal_threshold", timeout=T,
        desc="Uploader.upload/_got_size: size <= 55 => LiteralUploader only (no EncryptAnUploadable/CHK/helper object is even created); size > 55 => "
             "EncryptAnUploadable(uploadable) + CHKUploader (AssistedUploader with a helper); read cap = verify-cap fields + the uploadable's key; uploadable closed once"),
    chx("get_size", "C05_h", "h_get_size", timeout=T,
        desc="FileHandle.get_size: equals the number of bytes readable through the handle for any current position and whatever the OS reports for the "
             "descriptor (buffered writes still pending); handle rewound; cached — the size feeds the literal threshold, segsize and hence the convergent key"),
    chx("literal_uploader", "C05_h", "h_literal_uploader", timeout=T,
        bounds={"quick": {"lit_max": 55}, "thorough": {"lit_max": 100000}},
        desc="LiteralUploader.start/read_this_many_bytes/FileHandle.read with arbitrary short reads: the literal cap embeds exactly bytes [0,size) in order (probe p); no shares claimed"),
    chx("convergent_key", "C05_h", "h_convergent_key", timeout=T,
        cases=[{"nreads": i, "_label": "%dreads" % i} for i in (1, 2, 3, 4, 5)],
        desc="FileHandle.get_encryption_key/_get_encryption_key_convergent: hasher created with exactly (k, n, segsize, secret) of this upload and fed exactly "
             "file bytes [0,size) in order for every chunking (3 arbitrary short reads then 64 KiB reads; case = number of data reads); file rewound before/after; "
             "hashed once, key cached",
        outside="files needing more than 5 reads (3 short + 2 full): the loop body is the same for every further read"),
    chx("random_key", "C05_h", "h_random_key", timeout=T,
        desc="no convergence secret: key = os.urandom(16), fresh per uploadable, cached per uploadable, file neither read nor hashed"),
    pyob("tag_injective", "tag_injective", timeout=300, bounds={"quick": {"secret_max": 40, "data_max": 8, "seg_digits": 12},
                                                                  "thorough": {"secret_max": 64, "data_max": 16, "seg_digits": 20}},
         desc="cvc5 string theory: SHA256d input netstring(PREFIX + netstring(secret) + netstring('k,n,segsize')) + data is injective in (k, n, segsize, secret, data) "
              "(so changing any of them changes the hashed message, hence key and storage index under an ideal hash); model checked against the live "
              "hashutil._convergence_hasher_tag/convergence_hasher on a corpus; the query is shown able to fail on a run-together variant",
         outside="secret longer than the bound, k/n above 3 digits; SHA-256 itself (ideal)"),
    chx("tag_params", "C05_h", "h_tag_params", timeout=T,
        bounds={"quick": {"kn_max": 3, "seg_min": 8, "seg_max": 12}, "thorough": {"kn_max": 3, "seg_min": 95, "seg_max": 106}},
        desc="real hashutil._convergence_hasher_tag on a small domain (path-per-input): different (k,n,segsize) or a different secret give different tags"),
    chx("read_encrypted", "C05_h", "h_read_encrypted", timeout=T,
        bounds={"quick": {"nchunks": 2}, "thorough": {"nchunks": 3}},
        cases=[{"hash_only": h, "first": f, "_label": "%s,first-read-%s" % (("encrypt", "hash_only_first")[h], ("several-chunks", "one-chunk")[f])}
               for h in (0, 1) for f in (0, 1)],
        desc="EncryptAnUploadable.read_encrypted/_read_encrypted/_hash_and_encrypt_plaintext, symbolic CHUNKSIZE, two consecutive calls (first maybe hash_only): "
             "ciphertext pieces are plaintext [0,a1) and [a1,a1+a2) in order with a_i = min(length, remaining); hash_only returns nothing but still feeds "
             "the cipher stream and the plaintext hasher; one encryptor keyed with the uploadable's key"),
    chx("multi_piece_read", "C05_h", "h_multi_piece_read", timeout=T,
        desc="_read_encrypted/_hash_and_encrypt_plaintext when ONE read() of the uploadable returns three strings (symbolic cut points, empty pieces included): "
             "cipher stream, plaintext hasher, segment hasher and returned ciphertext all see the bytes in file order (probe p)"),
    chx("segment_hashes", "C05_h", "h_segment_hashes", timeout=T,
        bounds={"quick": {"nchunks": 2, "nsegs": 2}, "thorough": {"nchunks": 3, "nsegs": 3}},
        desc="EncryptAnUploadable._update_segment_hash: each plaintext segment hasher gets at most segsize bytes, together the same byte stream, closed hashes == floor(bytes/segsize)"),
]
