from vlib.spec import chx

EXPLANATION = ("CrossHair symbolic execution (z3) of the real ServerMap query methods on a real ServerMap populated from symbolic version "
               "descriptors, and of Publish.publish/update up to the sequence-number assignment. Version descriptors end up in dict keys, so "
               "every feasible descriptor combination is one solver-decided path (path-per-input, small bounds).")
ASSUMPTIONS = [
    "versions are (seqnum, root-hash rank, k) with distinct concrete root hashes per rank; one k per run (equal (seqnum, root hash) implies equal k: same signed prefix)",
    "a (server, shnum) slot holds one version; each version's distinct shares sit on its own server plus d (0..dmax) further COPIES of share 0 on other servers",
    "ServermapUpdater._check_for_done: only its MODE_READ decision is decided (read_keeps_querying), one step on a fake updater; queries, responses and the other modes are not",
]


def _b(nv, seq_max, rank_max, k, c_lo, c_hi, dups=True, s0=None, dmax=1, seqs=None):
    b = {"nv": nv, "seq_max": seq_max, "rank_max": rank_max, "k": k, "c_lo": c_lo, "c_hi": c_hi, "dups": dups, "s0": s0, "dmax": dmax, "seqs": seqs}
    b["_label"] = "%dv-seq%d-rank%d-k%d-c%+d..%+d%s%s" % (nv, seq_max, rank_max + 1, k, c_lo, c_hi, ("-dup%d" % dmax) if dups else "", "" if s0 is None else "-s0_%d" % s0)
    if seqs is not None:
        b["_label"] += "-seqs" + "_".join(map(str, seqs))
    return b


OBLIGATIONS = [
    chx("servermap_versions", "C11_h", "h_servermap", timeout={"quick": 150, "thorough": 1500},
        cases={"quick": [_b(2, 3, 1, 2, -1, 0, s0=s) for s in (1, 2, 3)] + [_b(3, 2, 1, 1, -1, 0, dups=False, s0=s) for s in (1, 2)]
               + [_b(2, 4, 1, 1, -1, 0, dups=False, seqs=[9, 10, 99, 100])],
               "thorough": [_b(2, 3, 2, k, -1, 1, s0=s) for k in (1, 2, 3) for s in (1, 2, 3)]
               + [_b(2, 2, 1, 3, -1, 0, s0=s, dmax=2) for s in (1, 2)]
               + [_b(3, 3, 1, k, -1, 0, dups=False, s0=s) for k in (1, 2) for s in (1, 2, 3)]},
        desc="real ServerMap (add_new_share) with <= 3 versions (seqnum 1..3, or drawn from {9,10,99,100} to straddle digit boundaries, root-hash rank, k, distinct share count around k, duplicate "
             "copies): shares_available counts DISTINCT share numbers; recoverable <=> distinct >= k; best_recoverable_version = the "
             "recoverable version with the highest seqnum, larger root hash on ties (None if none); highest_seqnum = max over ALL located "
             "versions; unrecoverable_newer_versions = unrecoverable versions above every recoverable seqnum; needs_merge <=> two "
             "recoverable versions share a seqnum; version_on_server / all_servers_for_version agree with the placement",
        outside="ServermapUpdater (how the map is filled, when querying stops): _check_for_done MODE_READ extension logic is Deferred/"
                "network driven and not decided; histories of publishes (each publish is one step from an arbitrary map)"),
    chx("new_seqnum", "C11_h", "h_new_seqnum", timeout={"quick": 150, "thorough": 1500},
        cases={"quick": [_b(2, 3, 0, 2, -1, 0, dups=False), _b(2, 3, 0, 1, 0, 0, dups=False, seqs=[9, 10, 100])],
               "thorough": [_b(3, 3, 0, 2, -1, 0, dups=False, s0=s) for s in (1, 2, 3)] + [_b(2, 4, 0, 1, 0, 0, dups=False, seqs=[99, 100, 999, 1000])]},
        desc="real Publish.publish and Publish.update executed up to the assignment of _new_seqnum on a real ServerMap (modes WRITE/CHECK/"
             "REPAIR) or with no servermap (initial publish): the new sequence number is strictly above every version in the map, "
             "recoverable or not, and equals highest+1 (1 for the initial publish)",
        outside="the rest of publish (C47); that the survey saw every existing version (C10/C11 updater logic)"),
    chx("read_keeps_querying", "C11_h", "h_read_keeps_querying", timeout={"quick": 150, "thorough": 1500},
        cases={"quick": [_b(2, 2, 0, 3, -2, 0, dups=False), _b(2, 2, 0, 2, -1, 0, dups=True, s0=1),
                         dict(_b(1, 2, 0, 2, -1, 0, dups=True), gates=True, _label="1v-gates")],
               "thorough": [_b(2, 3, 1, 2, -1, 0, dups=True, s0=s) for s in (1, 2, 3)] + [_b(2, 2, 0, 3, -2, 0, dups=True, dmax=2)]
               + [_b(2, 2, 1, 4, -3, 0, dups=False, s0=s) for s in (1, 2)]
               + [dict(_b(2, 2, 0, 2, -1, 0, dups=True), gates=True, _label="2v-gates")]},
        desc="ServermapUpdater._check_for_done in MODE_READ, one decision on a fake updater over a real ServerMap (<= 2 versions, copies of a "
             "share on several servers), with symbolic 'queries outstanding', 'extra servers left', 'must-query pending', completed/planned "
             "query counts: it finishes only if nobody is left to ask, or a recoverable version was seen AND no unrecoverable version with a "
             "higher seqnum than every recoverable one is in sight AND the planned number of servers answered; otherwise it asks more "
             "servers - also when the servers left to ask are fewer than the shares still missing (k=3: one share found, one server unheard; a "
             "server can hold several shares) - (recoverability counts DISTINCT share numbers); it waits while must-query servers are pending",
        outside="the other modes; _send_more_queries itself and the order in which servers are asked; that the loop terminates"),
    chx("answer_accounting", "C11_h", "h_answer_accounting", timeout={"quick": 120, "thorough": 900},
        cases=[{"mode": m, "_label": m} for m in ("read", "check", "write")],
        desc="real ServermapUpdater._do_query/_got_results/_got_signature_one_share/_check_for_done/_send_more_queries on a fake updater: two "
             "servers (each one share, k=1, symbolic seqnums) answer and their share validations complete in ANY order (symbolic schedule), "
             "a third server is still unasked: whenever the updater declares itself done, every answer that had arrived has been merged into "
             "the servermap and the map's best version is the newest among the answers received; counters/outstanding sets are consistent "
             "afterwards; MODE_CHECK does not finish with must-query servers pending",
        outside="real share parsing and signature checks (C10); more than two answering servers; privkey fetching; update_range data"),
]
