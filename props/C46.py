from vlib.spec import chx

EXPLANATION = ("CrossHair symbolic execution (z3) over a symbolic DownloadNode request queue and event (and, for the no-dead-state clause, a symbolic SegmentFetcher "
               "state and event); every path realises one (state, event) pair (path-per-state, DESIGN 1.4) and runs the real DownloadNode / SegmentFetcher methods on it.")
ASSUMPTIONS = [
    "one-step form: node states are those produced by up to NREQ real get_segment calls and at most one earlier cancel (this includes an active fetcher that does not serve "
    "the first queued request); each event is followed by draining the eventual-send queue (foolscap eventually() replaced by a FIFO harness queue)",
    "liveness through the real reactor, ShareFinder timers and Share internals is outside the claim: what is shown is that no event leaves the node or the fetcher in a state "
    "from which nothing further can happen while requests are pending",
    "decode and ciphertext-hash results are injected (already-fired Deferred / hash-tree stub); the fetcher started for the next request is the real class with no shares known",
    "after every input is fixed by a solver-decided fork the real code runs on the realised state with opcode tracing off (identical result on concrete data)",
]

OBLIGATIONS = [
    chx("segment_lifecycle", "C46_h", "h_life",
        bounds={"quick": {"NREQ": 3, "NSEG": 2}, "thorough": {"NREQ": 3, "NSEG": 3}}, timeout={"quick": 150, "thorough": 1200},
        desc="DownloadNode.fetch_failed / process_blocks (+ inner _deliver, _check_ciphertext_hash) / _deliver / _extract_requests / _start_new_segment / _cancel_request / get_segment: "
             "after a failed or delivered segment every request for that segment fires exactly once (data, or the failure; BadCiphertextHashError on a hash mismatch), no other "
             "request fires, the queue keeps the others in order, _active_segment is cleared and - if requests remain - a NEW running fetcher serves the first of them and has asked "
             "for shares; a cancel retires exactly that request and replaces the fetcher iff nobody wants its segment any more; a stale (stopped) fetcher is never left active",
        outside="Segmentation/read() above get_segment, the real reactor"),
    chx("whole_segment_read", "C46_h", "h_read",
        bounds={"quick": {"NSRV": 2, "NF": 3}, "thorough": {"NSRV": 3, "NF": 3}},
        cases={"quick": [{"k": k, "a0both": b, "_label": "k%d%s" % (k, ".both" if b else "")} for k in (1, 2) for b in (0, 1)],
               "thorough": [{"k": k, "a0": a, "_label": "3srv.k%da%d" % (k, a)} for k in (1, 2) for a in range(5)]
                           + [{"k": k, "a0": a, "NSRV": 2, "NF": 5, "_label": "2srv5f.k%da%d" % (k, a)} for k in (1, 2) for a in (2, 3, 4)]},
        timeout={"quick": 150, "thorough": 1500},
        desc="real ShareFinder (hungry/loop/send_request/_got_response/_got_error/_deliver_shares) + real SegmentFetcher + real DownloadNode.get_segment/got_shares/"
             "no_more_shares/want_more_shares/fetch_failed/process_blocks, NSRV servers each answering get_buckets with an error / nothing / share 0 / share 1 / both, every "
             "share with a fate (good, dead, overdue-then-good; thorough also corrupt, overdue-then-dead), notifications delivered oldest-first or newest-first, optionally a second read on "
             "the same node: once every server has answered and every request has finished the read has fired exactly once (never hangs), the node is idle again, it delivers "
             "data iff at least k distinct share numbers have a good share (decoded only from good blocks), otherwise NotEnoughSharesError/NoSharesError; same for the second read",
        outside="Share internals (hash validation), overdue timers firing, more than 2 share numbers / 3 servers, interleavings other than the two orders"),
    chx("segmented_read", "C46_h", "h_segread",
        bounds={"quick": {"FS": 12, "RS": 5, "GUESSES": [2, 3, 5, 8]}, "thorough": {"FS": 25, "RS": 10, "GUESSES": [3, 7, 10, 16, 30]}},
        cases={"quick": [{"hs": 1, "_label": "share"}, {"hs": 0, "_label": "noshare"}],
               "thorough": [{"gi": i, "_label": "g%d" % i} for i in range(5)]},
        timeout={"quick": 120, "thorough": 1200},
        desc="a whole DownloadNode.read(consumer, offset, size) through the real Segmentation (start/_maybe_fetch_next/_fetch_next/_got_segment/_retry_bad_segment/_error), the real "
             "SegmentFetcher and ShareFinder, on a fresh node that only GUESSES the segment size (smaller, equal or larger than the real one), every offset and size in the file, "
             "with or without a share, optionally a second identical read: the guess may name the wrong segment (WrongSegmentError) or one beyond the end (BADSEGNUM -> "
             "BadSegmentNumberError); the read fires exactly once, the node is idle and the producer unregistered afterwards, the consumer received exactly file[offset:offset+size], "
             "or - without shares - a not-enough-shares error",
        outside="pause/resume/stopProducing of the consumer (C04), concurrent reads"),
    chx("fetcher_no_dead_state", "C03_h", "h_step",
        bounds={"quick": {"NREC": 2, "NSH": 2, "NSV": 2, "KMAX": 1, "LIMIT": 2, "k": 1}, "thorough": {"NREC": 2, "NSH": 3, "NSV": 2, "KMAX": 2, "LIMIT": 2}},
        cases={"quick": [{"nms": m, "limit": l, "s0lo": z, "_label": "m%dl%d%s" % (m, l, "a" if z else "b")} for m in (0, 1) for l in (1, 2) for z in (1, 0)],
               "thorough": [{"k": k, "nms": m, "limit": l, "_label": "k%dm%dl%d" % (k, m, l)} for k in (1, 2) for m in (0, 1) for l in (1, 2)]},
        timeout={"quick": 150, "thorough": 1500},
        desc="clause (c) of the C03 fetcher step (same harness as C03/fetcher_step): after any event the SegmentFetcher has either notified the node (process_blocks / "
             "fetch_failed) or still has an outstanding request or has asked the finder for more shares; when the finder is exhausted and fewer than k share numbers remain it fails "
             "the fetch instead of waiting forever"),
]
