from vlib.spec import chx

EXPLANATION = ("CrossHair (z3) symbolic execution of the real BackupDB_v2 methods over an in-memory table model: stored and current size/mtime/ctime, "
               "timestamps are unbounded symbolic ints; row presence, cap choice, record age and random draw are symbolic selectors over concrete values.")
ASSUMPTIONS = [
    "SQLite replaced by an in-memory engine for the SQL subset of backupdb.py (INSERT [OR IGNORE|OR REPLACE]/REPLACE/UPDATE/DELETE/SELECT incl. the two-table join); table "
    "definitions (columns, PRIMARY KEY, INTEGER PRIMARY KEY rowid alias, AUTOINCREMENT, UNIQUE) are parsed from backupdb.SCHEMA_v2 at run time; constraint conflicts raise IntegrityError, "
    "lastrowid/rowid allocation follow sqlite (AUTOINCREMENT never reuses an id, plain INTEGER PRIMARY KEY reuses max+1); the engine is compared with the real sqlite3 on a 23-statement "
    "script at import; real SQLite typing/affinity (NUMBER columns, float timestamps) is outside the claim",
    "os.stat of the module is symbolic (size >= 0, mtime/ctime arbitrary ints); the record age (now - last_checked) ranges over 8 concrete values around the 1-month / 2-month boundaries "
    "(incl. negative: clock skew) and the random draw over 4 values: the re-check rule does float arithmetic, which does not discharge symbolically",
    "pre-state of the file obligations: an optional record for the path (symbolic size/mtime/ctime, fileid 1 or 2), optional caps/last_upload rows for that fileid "
    "(a superset of the states the code itself creates: it tolerates a forgotten cap), plus an unrelated record for another path",
    "histories are covered as: one check from an arbitrary state; arbitrary state -> check -> did_upload -> (file changes by symbolic deltas, time passes) -> check [-> did_check_healthy -> check]; "
    "longer histories follow because each step starts from an arbitrary state",
    "directory lookup: SHA-256 replaced by an ideal injective hash, so a hit means equal serialised contents; injectivity of the serialisation itself (sorted netstring pairs) is "
    "checked on name/cap pools built to collide under sloppy framing and, for all byte strings, by the C19 netstring obligations",
    "of tahoe_backup.py only BackerUpper.check_backupdb_file is driven (backup_tool); the directory walk / upload loop is not",
]
T = {"quick": 150, "thorough": 900}
OBLIGATIONS = [
    chx("check_file", "C42_h", "h_check_file", timeout=T,
        desc="BackupDB_v2.check_file from an arbitrary database state: was_uploaded() is a cap iff a record for exactly this path exists, size, mtime and ctime all equal "
             "the current stat, timestamps are trusted and the cap is still known - and then it is that record's cap; otherwise False, the stale record (only it) is deleted and committed; "
             "the result carries the current stat; a hit does not modify the database (sizes/times: unbounded symbolic ints)"),
    chx("upload_then_check", "C42_h", "h_upload_then_check", timeout=T,
        desc="state (no record / complete record / forgotten cap) -> check_file -> did_upload(cap: known or new) while the file is modified again during the upload (symbolic deltas) -> later changes, time passes -> check_file: the record holds "
             "the stat that check_file observed (not a later one) and the cap (INSERT and UPDATE paths, cap de-duplication); the MOST RECENT cap is offered iff nothing changed and timestamps are trusted, else nothing and the record "
             "is dropped; another path is answered from its own record only; did_check_healthy resets the re-check age"),
    chx("recheck_rule", "C42_h", "h_recheck_rule", timeout=T,
        desc="should_check() for files and directories over 8 record ages (negative, 0, exactly 1 month, just above, 1.5 months, just below 2, exactly 2, 3 months) x 4 random draws: "
             "never before one month, always from two months on, in between iff draw < (age - 1 month) / 1 month"),
    chx("directory", "C42_h", "h_directory", timeout=T,
        desc="check_directory/did_create_directory/did_check_directory_healthy: record one of 3 contents, then look up one of 12 (same map in either insertion order, and maps built to "
             "collide with it under unwrapped caps / unwrapped names / plain concatenation / different caps / extra entries): the recorded cap is offered iff the name->cap map is identical; "
             "different contents get their own record"),
    chx("two_uploads", "C42_h", "h_two_uploads", timeout=T,
        desc="one run uploads two files (check_file -> did_upload twice) where the second cap may already be known (same as the first file's, or from an earlier run; second path with or "
             "without a previous record): afterwards each path is answered with its own cap, each path's record links to the fileid of its own cap, no cap is registered twice "
             "(get_or_allocate_fileid_for_cap, incl. sqlite's lastrowid semantics in the table model)"),
    chx("forgotten_cap", "C42_h", "h_forgotten_cap", timeout=T,
        desc="b.txt is uploaded (highest fileid), its caps row (optionally last_upload row) is then deleted, other files are uploaded with known / new caps, then b.txt is checked "
             "unchanged: the answer is False (never another file's cap) - relies on the fileid allocation of the schema in backupdb.SCHEMA_v2 (AUTOINCREMENT), which the table model reads"),
    chx("directory_pairs", "C42_h", "h_directory_pairs", timeout=T,
        cases={"quick": [{"names2": [0, 1], "caps2": [0, 1, 2, 3], "_label": "concat"}, {"names2": [0, 3], "caps2": [0, 1, 5, 6], "_label": "framing"}],
               "thorough": [{"_label": "all"}]},
        desc="single-entry (plus optional common entry) contents with short names/caps over a shared alphabet ({'ab': 'c'} vs {'a': 'bc'}, {'a1:': 'b,'}-style framing look-alikes): "
             "the recorded directory is found iff the (name, cap) pairs are equal, i.e. the lookup key is injective in the pairs"),
    chx("backup_tool", "C42_h", "h_backup_tool", timeout=T,
        desc="tahoe_backup.BackerUpper.check_backupdb_file with options from the REAL cli.BackupOptions().parseOptions([... '--ignore-timestamps' or not ...]) and with hand-built "
             "True/False/1/0 flag values, a recording backupdb and a canned check response: use_timestamps passed to check_file == not (flag given); the file is re-uploaded unless the "
             "database offers a cap and either no check is due or the check answers healthy (then did_check_healthy is called)"),
]
