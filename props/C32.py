from vlib.spec import chx

EXPLANATION = ("CrossHair symbolic execution (z3) of the real StorageFarmBroker.get_servers_for_psi, NativeStorageServer / "
               "HTTPNativeStorageServer.upload_permitted and Publish.update_goal with an ideal permutation hash (one symbolic integer per "
               "server) and symbolic connected / preferred / certificate-verifier flags.")
ASSUMPTIONS = [
    "permute_server_hash (SHA-1 of storage index + seed) is an ideal hash: distinct seeds give distinct values; its value per server is an unconstrained integer",
    "servers are real NativeStorageServer objects built without their constructor; two memory layouts (object hashes => frozenset iteration order) stand for two different clients",
    "whether a certificate is currently valid is the verifier's answer (C33 covers the verifier)",
]
OBLIGATIONS = [
    chx("server_order", "C32_h", "h_server_order",
        bounds={"quick": {"uniform_verifier": True}, "thorough": {"uniform_verifier": False}},
        cases={"quick": [{"n": 3, "for_upload": False, "_label": "n3-read"}, {"n": 3, "for_upload": True, "_label": "n3-upload"},
                         {"n": 3, "for_upload": False, "tie": True, "_label": "n3-read-tie"}],
               "thorough": [{"n": 4, "for_upload": False, "_label": "n4-read"}, {"n": 3, "tie": True, "_label": "n3-tie"},
                            {"n": 4, "for_upload": True, "uniform_verifier": True, "_label": "n4-upload-uniform"},
                            {"n": 3, "for_upload": True, "_label": "n3-upload"}, {"n": 3, "for_upload": False, "_label": "n3-read"},
                            {"n": 2, "_label": "n2"}]},
        timeout={"quick": 120, "thorough": 1500},
        desc="StorageFarmBroker.get_servers_for_psi: result == exactly the connected (for upload: and permitted) servers once each, preferred "
             "first, then ascending hash of (storage index, seed); identical for two set-iteration orders; verifier not consulted unless for_upload; tie case: two servers announcing the same permutation seed are both listed (relative order unspecified)",
        outside="SHA-1 itself; Tub/HTTP connection management that sets the connected flag"),
    chx("preferred_from_config", "C32_h", "h_preferred_from_config", timeout={"quick": 120, "thorough": 600},
        desc="[client]peers.preferred in tahoe.cfg -> StorageClientConfig.from_node_config -> StorageFarmBroker(...) with servers built by the real "
             "_make_storage_server/_parse_announcement -> get_servers_for_psi: the configured server, when connected, is listed first; the others by hash",
        outside="Tub creation / connection establishment (servers are never connected for real)"),
    chx("upload_permitted", "C32_h", "h_upload_permitted", timeout={"quick": 30, "thorough": 30},
        desc="NativeStorageServer.upload_permitted and HTTPNativeStorageServer.upload_permitted: no verifier => True, else the verifier's "
             "answer, evaluated at call time"),
    chx("update_goal", "C32_h", "h_update_goal",
        bounds={"quick": {"total_min": 2, "total_max": 2, "g1_free": False, "uniform_verifier": True},
                "thorough": {"total_min": 1, "total_max": 3, "g1_free": True, "uniform_verifier": True}},
        timeout={"quick": 120, "thorough": 900},
        desc="Publish.update_goal with 3 servers (symbolic bad / verifier flags) and an arbitrary old goal for shares 0,1: new placements only on "
             "permitted non-bad servers, every homeless share placed once, good existing placements kept, NotEnoughServersError iff nothing usable",
        outside="existing placements on servers whose certificate lapsed are kept and rewritten in place (update_goal only filters new placements)"),
]
