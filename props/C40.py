from vlib.spec import chx, pyob

EXPLANATION = ("CrossHair symbolic execution (z3) of the real FileDownloader.parse_range_header and render (web/filenode.py): unbounded symbolic "
               "file size and range numbers through a Range-header carrier object, checked against an independent RFC 7233 single-range model; plus the "
               "untouched functions on real header text with small integers.")
ASSUMPTIONS = [
    "Range header carrier: an object with the split/strip interface used by parse_range_header whose numbers are symbolic integers; the names int/str are "
    "shadowed inside web.filenode for the symbolic obligations and the literals 'bytes %s-%s/%s' / b'%d' are replaced by argument recorders (range_strings "
    "runs the same code with none of these and compares the real header text)",
    "render runs without the @render_exception decorator; Twisted-web rendering of the WebError into a response, and the node's read() (C04, mutable retrieve) are outside",
    "model of RFC 7233 for one range: S = requested ∩ [0, F); non-empty S => 206 with exactly S; first-byte-pos >= F => 416; unparsable header or last < first => "
    "ignored (200, whole file); a suffix range selecting nothing (suffix 0 or empty file) must not yield 206 (416 or ignored both accepted); with several "
    "ranges the first one is served (multipart/byteranges is not implemented) and one invalid spec makes the header unparsable",
]
T = {"quick": 120, "thorough": 900}
OBLIGATIONS = [
    chx("range_symbolic", "C40_h", "h_range_symbolic", timeout=T,
        desc="parse_range_header + render on unbounded symbolic (filesize, first, last / suffix) in the three RFC forms, optional second spec (valid or invalid), GET and HEAD: "
             "status, Content-Range, Content-Length, accept-ranges and the (offset,size) passed to filenode.read agree with the model; HEAD same headers, no read"),
    chx("range_unparsable", "C40_h", "h_range_unparsable", timeout=T,
        desc="no header / empty / wrong unit / garbage specs (real strings): ignored, plain 200, Content-Length == filesize (symbolic), whole-file read"),
    chx("range_strings", "C40_h", "h_range_strings", timeout=T,
        bounds={"quick": {"f_max": 5, "n_max": 6}, "thorough": {"f_max": 11, "n_max": 13}},
        cases=[{"form": f, "spaces": s, "_label": "%s%s" % (("first-last", "first-", "-suffix")[f], ",spaces+2nd" if s else "")} for f in (0, 1, 2) for s in (0, 1)],
        desc="untouched parse_range_header + render on real header text 'bytes=a-b' / 'bytes=a-' / 'bytes=-a' (also with blanks and a second range) for all "
             "filesize <= 5 and numbers <= 6 (path-per-input): real Content-Range / Content-Length text equals the model's"),
    chx("save_and_type", "C40_h", "h_save_and_type", timeout=T,
        desc="render: content-type from the file name; content-disposition attachment only with save=true"),
]
