from vlib.spec import chx

EXPLANATION = ("CrossHair (z3) execution of the real derivation code (hashutil and the chains through SecretHolder, MutableFileNode, the uri classes, "
               "derive_mutable_keys, upload, checker, dirnode) with hashlib.sha256 replaced by an ideal injective hash (recorder), compared with a "
               "specification table written from docs/specifications; symbolic selectors choose the derivation and the argument tokens, k/n/segment size are symbolic ints.")
ASSUMPTIONS = [
    "SHA-256 replaced by an ideal hash: a fresh 32-byte token per distinct input (collision-freedom is exactly what the property assumes); equality of tokens "
    "therefore means equality of the complete hash input (tag, netstring framing, argument order), of the nesting (outer input = inner digest) and of the truncation length",
    "the specification table (harness/C17_h.py: TAGS, Spec) is written from docs/specifications/lease.rst, file-encoding.rst, mutable.rst, dirnodes.rst; tags that the "
    "documents do not spell out are pinned literals (compatibility contract); the table is validated at import with the real SHA-256 against the 24 known answers of "
    "test_hashutil.py and the 4 vectors of docs/specifications/derive_renewal_secret.py",
    "arguments are concrete tokens of the documented lengths (two distinct ones per argument - one of the 32-byte secrets begins and ends with ASCII whitespace -, plus the empty string), not symbolic bytes: netstring's %-formatting realises symbolic "
    "bytes, so byte contents are structural here; k, n, segment size are symbolic ints within small bounds (they are formatted into the convergence tag)",
    "RSA DER serialisation and AES are token functions in derive_mutable_keys / _encrypt_rw_uri; Tahoe2ServerSelector.get_shareholders (inlineCallbacks) is not driven: its two "
    "file-secret lines are re-executed by the harness and _create_trackers is run for real",
]
T = {"quick": 120, "thorough": 900}
OBLIGATIONS = [
    chx("hashutil_table", "C17_h", "h_hashutil", timeout=T,
        bounds={"quick": {"n_max": 3, "seg_max": 2}, "thorough": {"n_max": 4, "seg_max": 4}},
        cases={"quick": [{"rows": list(range(0, 8)), "_label": "immutable"}, {"rows": list(range(8, 16)), "_label": "lease_dir"},
                         {"rows": list(range(16, 25)), "_label": "mutable"}],
               "thorough": [{"rows": [r], "_label": "row%d" % r} for r in range(25)]},
        desc="every derivation in util/hashutil.py (25 rows: storage index, block/UEB/plaintext/crypttext(+segment) hashes and incremental hashers, convergence key, "
             "client/file/bucket renewal+cancel secrets, dirnode salt/key, SSK writekey/readkey/storage index/fingerprint/write-enabler(master)/data key, backupdb dirhash, "
             "generic tagged_pair_hash with truncation) equals the specified SHA-256d construction: tag, netstring wrapping, argument order, truncation length"),
    chx("mutable_chain", "C17_h", "h_mutable_chain", timeout=T,
        desc="WriteableSSKFileURI/WriteableMDMFFileURI -> read key -> storage index (also via read-only, verify and directory caps), MutableFileNode.init_from_cap + "
             "get_renewal_secret/get_cancel_secret (lease secret -> client -> file -> bucket secret) and get_write_enabler (writekey -> master -> per-server) "
             "equal the specified chains end to end"),
    chx("keypair_and_dir", "C17_h", "h_keypair_and_dir", timeout=T,
        desc="mutable.common.derive_mutable_keys: writekey = H(tag, DER(privkey))[:16], fingerprint = H(tag, DER(pubkey)), private key encrypted under the writekey; "
             "dirnode._encrypt_rw_uri: salt = H(tag, rw_uri)[:16], AES key = H(tag, salt, directory writekey)[:16], output = salt + ciphertext + 32-byte mac"),
    chx("immutable_chain", "C17_h", "h_immutable_chain", timeout=T,
        bounds={"quick": {"n_max": 2, "seg_max": 1}, "thorough": {"n_max": 3, "seg_max": 3}},
        desc="CHKFileURI storage index; SecretHolder client secrets; Tahoe2ServerSelector._create_trackers per-server renewal/cancel secrets; Checker add-lease secrets; "
             "FileHandle convergent encryption key (tag + netstring(secret) + netstring('k,n,segsize'), contents) — all equal the specified chains"),
    chx("dir_child_keys", "C17_h", "h_dir_child_keys", timeout=T,
        desc="the same child (same write cap, hence same salt) linked from two directories with different writekeys, entries decrypted in 4 orders (A,B / B,A / A,B,A / B,B,A): "
             "every _decrypt_rwcapdata uses the key H(tag, salt, that directory's writekey) and recovers the child's write cap; _encrypt_rw_uri's salt is H(tag, child write cap)"),
]
