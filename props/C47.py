from vlib.spec import chx

EXPLANATION = ("CrossHair symbolic execution (z3) of the real Publish answer-handling state machine (push_everything_else, finish_publishing, "
               "_connection_problem, _got_write_answer, _push, _done, _failure) with symbolic per-writer outcomes, symbolic answer order and "
               "symbolic k; outcome vectors are path-per-input.")
ASSUMPTIONS = [
    "writers answer asynchronously (their Deferreds fire after finish_publishing returned), as foolscap/HTTP remote calls do",
    "a writer's positive answer means the server stored the share (server side: C24); its read data is {own shnum: [checkstring]} plus at most one extra share",
    "goal placement (update_goal over real server lists), segment pushing and retries are outside; the obligation starts when all blocks were pushed",
]
_OUT = [0, 1, 2, 3, 4, 5]
OBLIGATIONS = [
    chx("publish_outcome", "C47_h", "h_publish_outcome", timeout={"quick": 150, "thorough": 1500},
        cases={"quick": [{"layout": "spread", "outcomes": [0, 1, 2], "asked": True, "_label": "spread-012"},
                         {"layout": "spread", "outcomes": [0, 2, 4], "asked": False, "_label": "spread-024-notasked"},
                         {"layout": "stacked", "outcomes": [0, 2, 5], "asked": True, "_label": "stacked-025"},
                         {"layout": "doubled", "outcomes": [0, 2, 3], "asked": True, "_label": "doubled-023"}],
               "thorough": [{"layout": l, "outcomes": _OUT, "asked": a, "_label": "%s-all%s" % (l, "" if a else "-notasked")}
                            for (l, a) in (("spread", True), ("stacked", True), ("doubled", False))]
               + [{"layout": "four", "outcomes": [0, 2, 4], "asked": True, "_label": "four-024"}]},
        desc="3 (thorough also 4) writers in three layouts (one share per server / two shares on one server / one share on two servers), each "
             "answering wrote / test-vector-failed / connection-lost / wrote+unknown share of my version / wrote+unknown share of another "
             "version, in any order, k symbolic 1..4: the publish Deferred fires exactly once; success => >= k distinct share numbers were "
             "acknowledged, placed == acknowledged pairs, servermap updated, no test-vector failure and no foreign version seen; a "
             "test-vector failure or foreign version => UncoordinatedWriteError; otherwise failure only if fewer than k share numbers have "
             "a live writer, and then NotEnoughServersError",
        outside="update_goal / server selection; writers that answer synchronously; retry loops above Publish"),
    chx("mdmf_writer_answer_passthrough", "C12_h", "h_mdmf_testv", timeout={"quick": 120, "thorough": 900},
        desc="(harness shared with C12) real MDMFSlotWriteProxy.finish_publishing/_write through the real storage_client wrapper: the "
             "server's answer (wrote, read data) - in particular a REFUSED write (wrote == False) - is handed unchanged to the publisher, "
             "on the first and on later writes; publish_outcome assumes exactly this of its writers",
        outside="see C12/mdmf_test_vector"),
    chx("sdmf_writer_answer_passthrough", "C12_h", "h_sdmf_testv", timeout={"quick": 120, "thorough": 900},
        desc="(harness shared with C12) real SDMFSlotWriteProxy.finish_publishing: one remote write whose answer is passed through unchanged",
        outside="see C12/sdmf_test_vector"),
]
