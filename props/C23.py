from vlib.spec import chx

EXPLANATION = ("CrossHair symbolic execution (z3) of the real MutableShareFile / StorageServer methods on an in-memory file model "
               "(provenance run list + packed header/lease records, harness/_fakefile.py): one operation from an arbitrary "
               "consistent container state, checked against the byte-array model; integers bounded only by the container's "
               "representation invariant.")
ASSUMPTIONS = [
    "pre-state = any container satisfying the representation invariant that the code itself maintains: 0 <= data_length, "
    "468 + data_length <= extra_lease_offset <= 468 + MAX_MUTABLE_SHARE_SIZE, file ends with the extra-lease block "
    "(count + n records); the slack between data and extra leases holds arbitrary stale bytes; 0..2 extra leases",
    "histories are covered inductively: each operation is shown to map a state that matches the byte-array model to one that "
    "does (and to preserve the invariant)",
    "byte contents abstracted to provenance (source tag, source offset); zero fill is a run of zero provenance",
    "file system: in-memory model, each write() atomic (crash behaviour is C29)",
    "struct pack/unpack replaced by field lists with the real range checks (FStruct); b'\\x00'*n recompiled to a zero run; "
    "in mutable_schema._header b''.join recompiled to a payload list",
    "writev is decomposed: `writev_order` shows it applies the vectors in order through _write_share_data and then truncates; "
    "`write` shows one _write_share_data is a byte-array write; the end-to-end two-vector / truncate forms run in the thorough tier",
]
T = {"quick": 120, "thorough": 900}
NX = {"quick": [{"nx": 0, "_label": "nx0"}, {"nx": 1, "_label": "nx1"}], "thorough": [{"nx": i, "_label": "nx%d" % i} for i in range(3)]}
DCALL = [{"exists": e, "nlkind": k, "_label": "%s-%s" % ("existing" if e else "missing", ("none", "zero", "len")[k])}
         for e in (True, False) for k in (0, 1, 2)]
DC = {"quick": [c for c in DCALL if not c["exists"] or c["nlkind"] == 1], "thorough": DCALL}
OBLIGATIONS = [
    chx("write", "C23_h", "h_write", cases=NX, timeout=T,
        desc="MutableShareFile._write_share_data (+_change_container_size): for arbitrary (offset, length) the length field becomes "
             "max(old, offset+length); probe byte p is new data inside the write, zero in the gap [old_len, offset) (never stale "
             "slack bytes), old data otherwise; DataTooLargeError iff offset+length > MAX_SIZE and then nothing is written",
        outside="more than 2 extra leases"),
    chx("write_leases", "C23_h", "h_write_leases", cases=NX, timeout=T,
        desc="same operation: the 4 in-header lease slots are untouched, the extra-lease block (count + records) is found intact at "
             "the (possibly relocated) extra_lease_offset, 468 + new length <= extra_lease_offset <= 468 + MAX_SIZE, file ends with "
             "the block, magic/nodeid/write enabler unchanged"),
    chx("read", "C23_h", "h_read", timeout=T,
        desc="MutableShareFile._read_share_data / get_length: result is bytes [offset, min(offset+length, data_length)), empty beyond "
             "the end; no write to the file"),
    chx("writev_order", "C23_h", "h_writev_order", timeout=T,
        desc="MutableShareFile.writev with a recording _write_share_data: every vector applied exactly once, in order, on one file; "
             "afterwards length = min(length after the writes, new_length) (None = no truncation)"),
    chx("writev_truncate", "C23_h", "h_writev_truncate", timeout=T, tiers=("thorough",),
        desc="end-to-end writev(one vector, new_length): header invariant, length, probe byte"),
    chx("writev_two", "C23_h", "h_writev_two", bounds={"cont_max": 2**40}, timeout=T, tiers=("thorough",),
        desc="end-to-end writev(two vectors) inside a container that is already large enough (no lease relocation; that is `write`): "
             "the second write wins on overlap, zero fill between, probe byte"),
    chx("readv", "C23_h", "h_readv", timeout=T,
        desc="MutableShareFile.readv: each (offset, length) answered independently and clipped at the current length"),
    chx("testv", "C23_h", "h_testv", timeout=T,
        desc="MutableShareFile.check_testv / testv_compare / EmptyShare.check_testv: a test vector passes iff the clipped current "
             "data equals the specimen; several vectors = conjunction (either order); a missing share reads as empty"),
    chx("create", "C23_h", "h_create", timeout=T,
        desc="create_mutable_sharefile / MutableShareFile.create / mutable_schema header: a fresh container is an empty byte array "
             "with consistent geometry (468 <= extra_lease_offset, empty extra-lease block at the end), no leases; any read is empty; "
             "its first lease goes into in-header slot 0 without needing space and leaves the geometry alone"),
    chx("delete_create", "C23_h", "h_delete_create", cases=DC, timeout=T,
        desc="StorageServer._evaluate_write_vectors (+_allocate_slot_share, create_mutable_sharefile, MutableShareFile.create, "
             "mutable_schema header): new_length == 0 deletes the share (and the empty bucket directory, not other shares) even if "
             "write vectors are given and never creates one; otherwise a missing share is created empty (4 blank lease slots, "
             "right magic/nodeid/write enabler) and then written like a byte array"),
]
