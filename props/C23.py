from vlib.spec import chx

ASSUMPTIONS = []
T = {"quick": 120, "thorough": 900}
NX = {"quick": [{"nx": 0, "_label": "nx0"}, {"nx": 1, "_label": "nx1"}], "thorough": [{"nx": i, "_label": "nx%d" % i} for i in range(3)]}
OBLIGATIONS = [
    chx("write", "C23_h", "h_write", cases=NX, timeout=T, desc="x"),
    chx("write_leases", "C23_h", "h_write_leases", cases=NX, timeout=T, desc="x"),
    chx("read", "C23_h", "h_read", timeout=T, desc="x"),
]
