from vlib.spec import chx, pyob

EXPLANATION = ("CrossHair (z3) exploration of the real pack_children/_pack_normalized_children -> DirectoryNode._unpack_contents chain "
               "(real netstring, normalize, jsonbytes, AuxValueDict) with short symbolic names / metadata strings over a fixed alphabet and "
               "symbolic capability selectors; netstring framing additionally as z3 string-theory queries generated from the source of "
               "util.netstring.netstring/split_netstring.")
ASSUMPTIONS = [
    "names: symbolic strings of length <= 2 (thorough 3) over the alphabet {a, A, U+030A, U+00C5, U+212B, ',', ':', '1', U+00E9, U+1F600}; the oracle's NFC is a "
    "hand-written composition table for this alphabet, checked against unicodedata at import; other code points / longer names are outside the claim",
    "capabilities: 15 concrete cap kinds (see C18); capability equality is modulo the alleged 'ro.'/'imm.' prefix, which the code treats as implied by the "
    "slot / directory context (an unknown 'ro.' cap stored in an immutable directory comes back 'imm.'; upstream test_dirnode expects exactly that)",
    "'refuse mutable or write-capable children' is read as: known-mutable or carrying a write cap; an unknown cap with only a read-only form is accepted by design (UnknownNode.is_allowed_in_immutable_directory)",
    "AES-CTR replaced by a keyed self-inverse byte map in the token obligations (identity-crypto abstraction); real AES in real_nodes",
    "at most 2 children per directory (50-entry directories are outside the claim; entries are framed independently, see the netstring obligations)",
]
T = {"quick": 150, "thorough": 1200}
N = 15


def _c(label, **kw):
    kw["_label"] = label
    return kw


OBLIGATIONS = [
    chx("roundtrip_names", "C19_h", "h_roundtrip_names", timeout=T,
        cases={"quick": [_c("one_len2", len0=2, len1=0, alphabet="aA\u030a\u212b,\U0001f600", two=[False]),
                         _c("two_len1", len0=1, len1=1, alphabet="a\u00c5\u212b:1\u00e9", two=[True]),
                         _c("two_collide", len0=2, len1=1, alphabet="A\u030a\u212b", two=[True], readonly=[False])],
               "thorough": [_c("one_len3", len0=3, len1=0, alphabet="aA\u030a\u00c5,:1", two=[False]),
                            _c("one_len2_full", len0=2, len1=0, two=[False]), _c("two_len1_full", len0=1, len1=1, two=[True]),
                            _c("two_len2_1", len0=2, len1=1, alphabet="aA\u030a\u212b,1", two=[True]),
                            _c("two_collide22", len0=2, len1=2, alphabet="A\u030a\u00c5\u212b")]},
        desc="pack_children -> _unpack_contents, 1-2 children with symbolic names (incl. NFC-equivalent spellings, ',' ':' digits, astral code points), mutable / "
             "immutable / read-only reader: unpacked names == NFC of the given names (later entry wins on collision), each with its caps and metadata; serialised "
             "names are the sorted normalised names"),
    chx("unpack_foreign", "C19_h", "h_unpack_foreign", timeout=T,
        cases={"quick": [_c("a", alphabet="A\u030a\u212b", len1=1, imm=[False])], "thorough": [_c("a", alphabet="aA\u030a\u00c5\u212b")]},
        desc="_unpack_contents on a directory serialised by the oracle's writer with un-normalised names (1-2 entries, names of length <= 2) and blank-padded caps: keys are the "
             "NFC names (later entry wins when two stored names normalise to the same), caps are right-stripped"),
    chx("roundtrip_caps", "C19_h", "h_roundtrip_caps", timeout=T,
        cases={"quick": [_c("g%d" % i, s0=list(range(i, N, 3)), s1=[(i * 5) % N, (i * 5 + 7) % N, 12]) for i in range(3)],
               "thorough": [_c("s%d" % i, s0=[i]) for i in range(N)]},
        desc="two children of symbolic cap kinds (all 15 kinds incl. unknown caps with and without prefixes) through the real packer/unpacker: write cap round-trips "
             "for a writeable reader and is withheld from a read-only one, read cap round-trips (modulo alleged prefix), metadata round-trips; immutable directory: "
             "MustBeDeepImmutableError iff a child is mutable or write-capable, otherwise stored"),
    chx("roundtrip_metadata", "C19_h", "h_roundtrip_metadata", timeout=T,
        cases={"quick": [_c("vals", shape=[0, 1, 2], klen=0, vlen=1), _c("keys", shape=[3, 4, 5], klen=1, vlen=0), _c("str2", shape=[1], klen=0, vlen=2)],
               "thorough": [_c("s%d" % i, shape=[i], klen=1, vlen=2) for i in range(6)]},
        desc="nested JSON metadata (dict/list/str/int/float/bool/None, big ints, empty keys) with symbolic key/value strings over {a, quote, backslash, newline, "
             "U+00E9, space, U+1F600, '/'} and a symbolic small int: unpacked metadata == given metadata (types included), caller's dict unmodified"),
    chx("repack", "C19_h", "h_repack", timeout=T,
        cases={"quick": [_c("a", s0=[2, 6, 12], s1=[0, 4, 13]), _c("b", s0=[0, 8, 14], s1=[2, 12])],
               "thorough": [_c("s%d" % i, s0=[i]) for i in range(N)]},
        desc="unpack -> modify at most one entry -> DirectoryNode._pack_contents -> unpack (AuxValueDict cache path): unmodified directory re-packs to identical bytes, "
             "untouched entries keep their serialisation, result equals the updated map"),
    chx("pack_from_listing", "C19_h", "h_pack_from_listing", timeout=T,
        cases={"quick": [_c("a", s0=[2, 6, 12, 0], s1=[0, 4, 13]), _c("b", s0=[0, 1, 10, 14], s1=[2, 11, 1])],
               "thorough": [_c("s%d" % i, s0=[i]) for i in range(N)]},
        desc="pack_children applied to the AuxValueDict of a listing of another directory (aux values = that directory's serialised entries), also with stale aux values: "
             "packed for a new mutable directory with another writekey or for an immutable directory, then unpacked: names, write caps (recovered with the NEW key), read caps and "
             "metadata equal the dict's values"),
    chx("real_nodes", "C19_h", "h_real_nodes", timeout=T,
        cases={"quick": [_c("g%d" % i, sel=list(range(i, N, 4))) for i in range(4)],
               "thorough": [_c("s%d" % i, sel=[i]) for i in range(N)]},
        desc="real nodes from the real NodeMaker (every cap kind) -> pack_children (real AES) -> real DirectoryNode._unpack_contents on a mutable / immutable parent: same "
             "node type, write uri, read uri, metadata, normalised name; immutable parent refuses exactly the mutable / write-capable kinds"),
    pyob("ns_step", "ns_step", timeout={"quick": 300, "thorough": 600}, bounds={"solver_timeout": 60},
         desc="z3/cvc5 strings, generated by interpreting the source of netstring/split_netstring: for ALL byte strings X, e, Y (no length bound) "
              "split_netstring(X + netstring(e) + Y, 1, len(X)) == ([e], len(X) + len(netstring(e))); every other path of the function (exceptions, "
              "constructs outside the encoding) is infeasible. By induction this frames any number of entries / fields.",
         outside="int() leniency of Python (signs, blanks, underscores) on data not produced by netstring()"),
    pyob("ns_too_few", "ns_too_few", timeout={"quick": 300, "thorough": 600},
         bounds={"quick": {"solver_timeout": 60, "have": 1, "want": 2}, "thorough": {"solver_timeout": 60, "have": 2, "want": 3}},
         desc="split_netstring(netstring(a)[+netstring(b)], numstrings = one more) raises ValueError on every feasible path (short data is rejected)"),
    pyob("ns_trailer", "ns_trailer", timeout={"quick": 300, "thorough": 600}, bounds={"solver_timeout": 60},
         desc="split_netstring(netstring(a) + T2, 1, required_trailer=T): returns ([a], len(data)) iff T2 == T, else ValueError, for all byte strings"),
    pyob("ns_accept", "ns_accept", timeout={"quick": 300, "thorough": 600}, bounds={"solver_timeout": 60},
         desc="soundness on arbitrary data and position >= 0: whenever split_netstring(data, 1, pos) returns ([s], p) (with a plain-digit length prefix), "
              "data[pos:p] is digits ':' s ',' with int(digits) == len(s)",
         outside="length prefixes that int() accepts but that are not plain digit strings"),
    pyob("ns_multi", "ns_four", tiers=("thorough",), timeout={"thorough": 1800}, bounds={"solver_timeout": 120, "count": 2},
         desc="several netstrings directly: split_netstring(netstring(a)+netstring(b), 2) == ([a,b], len(data)) for all byte strings (the 4-field directory entry shape "
              "discharged once stand-alone in 343 s but is too slow for cvc5 on a loaded machine; it follows from ns_step by induction)"),
]


def _ns(ctx, kind):
    import sys
    import os
    sys.path.insert(0, os.path.join(os.path.dirname(os.path.dirname(os.path.abspath(__file__))), "harness"))
    import C19_ns
    return C19_ns.run(ctx, kind)


def ns_step(ctx):
    return _ns(ctx, "step")


def ns_too_few(ctx):
    return _ns(ctx, "too_few")


def ns_trailer(ctx):
    return _ns(ctx, "trailer")


def ns_accept(ctx):
    return _ns(ctx, "accept")


def ns_four(ctx):
    return _ns(ctx, "four")
