"""Obligation specifications (what props/Cxx.py modules are made of)."""

TIERS = ("quick", "thorough")


class Ob(object):
    """
    One obligation.

    kind 'chx': `fn` is a function in /verif/harness/<harness>.py with a PEP-316
        docstring (`pre:` lines, `post: _`) returning True when the property holds on
        the path; decided by CrossHair (z3) over all paths within `bounds[tier]`.
    kind 'py' : `fn` is a callable(bounds) in the props module that builds and
        discharges solver queries itself (z3 / cvc5) and returns a result dict.
    """

    def __init__(self, name, kind, fn, harness=None, bounds=None, timeout=None, tiers=TIERS,
                 desc="", outside="", stubs=(), cases=None, twin_timeout=30):
        self.name = name
        self.kind = kind
        self.fn = fn
        self.harness = harness
        b = bounds or {}
        if "quick" not in b and "thorough" not in b:
            b = {"quick": dict(b), "thorough": dict(b)}
        self.bounds = {"quick": b.get("quick", {}), "thorough": b.get("thorough", b.get("quick", {}))}
        t = timeout if timeout is not None else {"quick": 60, "thorough": 600}
        if not isinstance(t, dict):
            t = {"quick": t, "thorough": t}
        # The per-case budgets written in props/*.py were measured by whoever built the obligation; they are
        # CPU seconds.  A safety factor keeps a loaded or slower machine from turning a discharging obligation
        # into an inconclusive one (it costs nothing when the obligation discharges).
        import os
        qs = float(os.environ.get("VERIF_TIMEOUT_SCALE_QUICK", "2.5"))
        ts = float(os.environ.get("VERIF_TIMEOUT_SCALE_THOROUGH", "1.5"))
        self.timeout = {"quick": int(t.get("quick", 60) * qs),
                        "thorough": int(t.get("thorough", t.get("quick", 60)) * ts)}
        self.tiers = tuple(tiers)
        self.desc = desc
        self.outside = outside
        self.stubs = list(stubs)
        self.twin_timeout = twin_timeout
        # cases: optional {tier: [dict, ...]} — each dict is merged into the bounds and run as its
        # own process; the obligation is discharged iff every case is.
        self.cases = cases

    def expand(self, tier):
        """List of (case_name, bounds) to run for this tier."""
        base = dict(self.bounds[tier])
        cases = None
        if self.cases:
            cases = self.cases.get(tier) if isinstance(self.cases, dict) else self.cases
        if not cases:
            return [(self.name, base)]
        out = []
        for i, c in enumerate(cases):
            b = dict(base)
            b.update(c)
            label = c.get("_label", str(i))
            out.append(("%s[%s]" % (self.name, label), b))
        return out


def chx(name, harness, fn, **kw):
    return Ob(name, "chx", fn, harness=harness, **kw)


def pyob(name, fn, **kw):
    return Ob(name, "py", fn, **kw)
