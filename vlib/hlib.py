"""
Harness helper library (imported by harness modules under /verif/harness and by
the replay scripts).  Everything here is environment modelling; each use is listed
in the evidence of the obligation that used it.
"""
import ast
import hashlib
import inspect
import json
import os
import sys
import textwrap
import types

REPLAY = os.environ.get("VERIF_REPLAY") == "1"
SHIMS = os.path.join(os.path.dirname(os.path.dirname(os.path.abspath(__file__))), "shims")


class HarnessError(Exception):
    """Raised when the harness cannot drive the code (not a property result)."""


class FieldMisaligned(HarnessError):
    """A FakeStruct record was sliced/unpacked across field boundaries or with another format: the reader
    and the writer disagree about the layout.  Harnesses that compare a writer with a reader catch this and
    report it as a violation (the real bytes would be mis-read)."""


class AssumeFailed(BaseException):
    """Replay mode: the concrete input does not satisfy an in-body assumption."""


def ensure_shims():
    """Put the collections_extended stand-in on sys.path iff the real one is absent."""
    try:
        import collections_extended  # noqa: F401
        return False
    except ImportError:
        if SHIMS not in sys.path:
            sys.path.insert(0, SHIMS)
        import collections_extended  # noqa: F401
        NOTES.append("collections_extended.RangeMap: stand-in from /verif/shims (package absent from image)")
        return True


class NS(object):
    """Attribute bag used as a fake `self` (types.SimpleNamespace reprs its symbolic fields, which
    breaks under CrossHair when real code formats `%r` of self eagerly)."""

    def __init__(self, **kw):
        self.__dict__.update(kw)

    def __repr__(self):
        return "<NS>"

    def __getattr__(self, name):
        """Missing attribute: if a real method is running with this fake as `self` and its class defines
        `name` (a helper method, property or class constant — e.g. after a refactor extracted one), serve it
        from that class.  Keeps harnesses that drive unbound methods on a fake self from breaking on
        behaviour-preserving restructurings of the class."""
        if name.startswith("__"):
            raise AttributeError(name)
        f = sys._getframe(1)
        depth = 0
        while f is not None and depth < 8:
            qn = getattr(f.f_code, "co_qualname", f.f_code.co_name)
            head = qn.split(".")[0]
            if "." in qn and head != "<locals>" and f.f_locals.get("self") is self:
                cls = f.f_globals.get(head)
                if isinstance(cls, type):
                    for klass in cls.__mro__:
                        if name in klass.__dict__:
                            attr = klass.__dict__[name]
                            if isinstance(attr, types.FunctionType):
                                return types.MethodType(attr, self)
                            if isinstance(attr, staticmethod):
                                return attr.__func__
                            if isinstance(attr, classmethod):
                                return types.MethodType(attr.__func__, cls)
                            if isinstance(attr, property):
                                return attr.fget(self)
                            return attr
            f = f.f_back
            depth += 1
        raise AttributeError("'NS' object has no attribute %r" % (name,))


NOTES = []      # free-text environment notes (stubs installed), reported in evidence
CUTS = []       # source statements removed by strip_logs: dicts(file, line, src)
ENCODED = {}    # qualified name -> sha256 of current source text


def bounds():
    """Per-tier bounds for the obligation being run (set by the worker)."""
    return json.loads(os.environ.get("VERIF_BOUNDS", "{}"))


def assume(cond):
    """In-body assumption: paths that violate it are ignored (listed as an assumption)."""
    if cond:
        return
    if REPLAY:
        raise AssumeFailed()
    from crosshair.util import IgnoreAttempt
    raise IgnoreAttempt("assume")


def encoded(*objs):
    """Record the real functions/classes an obligation executes, with a hash of their source."""
    for o in objs:
        try:
            target = o
            if isinstance(o, (staticmethod, classmethod)):
                target = o.__func__
            src = inspect.getsource(target)
            name = "%s:%s" % (getattr(target, "__module__", "?"), getattr(target, "__qualname__", repr(target)))
            ENCODED[name] = hashlib.sha256(src.encode("utf-8")).hexdigest()[:16]
        except (OSError, TypeError) as e:
            raise HarnessError("cannot read source of %r: %s" % (o, e))
    return objs[0] if len(objs) == 1 else objs


# ---------------------------------------------------------------------------
# Log stripping (DESIGN §2.1): remove expression statements that are bare
# logging calls; everything else is compiled unchanged in the original globals.
# ---------------------------------------------------------------------------

_LOG_CALLEES = {
    ("self", "log"), ("log", "msg"), ("log", "err"), ("twlog", "msg"), ("twlog", "err"),
    ("self", "_log"), ("logger", "debug"), ("logger", "info"), ("self", "_debug"),
}
_LOG_NAMES = {"print", "noisy", "logmsg", "logerr"}


def _is_log_call(node):
    if not isinstance(node, ast.Expr) or not isinstance(node.value, ast.Call):
        return False
    f = node.value.func
    if isinstance(f, ast.Name):
        return f.id in _LOG_NAMES
    if isinstance(f, ast.Attribute) and isinstance(f.value, ast.Name):
        return (f.value.id, f.attr) in _LOG_CALLEES
    if isinstance(f, ast.Attribute) and isinstance(f.value, ast.Attribute) and f.attr in ("log", "msg"):
        # self._node.log(...), self.parent.log(...)
        return f.attr == "log" or (isinstance(f.value, ast.Name) and f.value.id == "log")
    return False


class _Stripper(ast.NodeTransformer):
    def __init__(self, filename, first_line, srclines):
        self.filename = filename
        self.first_line = first_line
        self.srclines = srclines
        self.removed = []

    def visit_Expr(self, node):
        if _is_log_call(node):
            text = "\n".join(self.srclines[node.lineno - 1:node.end_lineno]).strip()
            self.removed.append({"file": self.filename, "line": self.first_line + node.lineno - 1,
                                 "src": text[:200]})
            return ast.copy_location(ast.Pass(), node)
        return node


class Joiner(object):
    """Stand-in for the literal b"" in `b"".join(parts)`: concatenates ProvBufs."""

    def join(self, parts):
        out = ProvBuf()
        for p in parts:
            out = out + p
        return out

    def __len__(self):
        return 0


class ZeroByte(object):
    """Stand-in for the literal b"\\x00" in `b"\\x00" * n`: yields a ProvBuf of n zero bytes."""

    def __mul__(self, n):
        return ProvBuf.zeros(n)

    __rmul__ = __mul__


PROV_CONSTS = {b"": Joiner(), b"\x00": ZeroByte(), b"\0": ZeroByte()}


def strip_logs(fn, drop_decorators=("log_call_deferred",), extra_globals=None, consts=None):
    """Return fn recompiled from its *current* source with bare logging statements removed.

    consts: optional {constant value: replacement object}; every occurrence of the literal in the
    function body is replaced by the object (used to make `b"".join(...)` / `b"\\x00" * n` work on
    provenance buffers).  Recorded as a cut."""
    raw = fn
    while hasattr(raw, "__wrapped__"):
        raw = raw.__wrapped__
    if isinstance(raw, (staticmethod, classmethod)):
        raw = raw.__func__
    try:
        src = inspect.getsource(raw)
        filename = inspect.getsourcefile(raw) or "?"
        first_line = raw.__code__.co_firstlineno
    except (OSError, TypeError) as e:
        raise HarnessError("strip_logs: no source for %r: %s" % (fn, e))
    src = textwrap.dedent(src)
    tree = ast.parse(src)
    fdef = tree.body[0]
    if not isinstance(fdef, (ast.FunctionDef, ast.AsyncFunctionDef)):
        raise HarnessError("strip_logs: %r is not a plain function" % (fn,))
    kept = []
    for d in fdef.decorator_list:
        dn = d.func if isinstance(d, ast.Call) else d
        name = dn.attr if isinstance(dn, ast.Attribute) else getattr(dn, "id", None)
        if name in drop_decorators:
            CUTS.append({"file": filename, "line": first_line, "src": "@" + ast.unparse(d) + " (decorator dropped)"})
        elif name in ("staticmethod", "classmethod", "property"):
            pass
        else:
            kept.append(d)
    fdef.decorator_list = kept
    st = _Stripper(filename, first_line, src.splitlines())
    tree = st.visit(tree)
    if consts:
        cnames = {}

        class _C(ast.NodeTransformer):
            def visit_Constant(self, node):
                for i, (k, v) in enumerate(consts.items()):
                    if type(node.value) is type(k) and node.value == k:
                        cnames["__verif_const_%d" % i] = v
                        return ast.copy_location(ast.Name(id="__verif_const_%d" % i, ctx=ast.Load()), node)
                return node
        tree = _C().visit(tree)
        extra_globals = dict(extra_globals or {})
        extra_globals.update(cnames)
        CUTS.append({"file": filename, "line": first_line,
                     "src": "in %s: literal(s) %r replaced by provenance-buffer stand-ins" % (raw.__qualname__, sorted(map(repr, consts)))})
    ast.fix_missing_locations(tree)
    CUTS.extend(st.removed)
    encoded(raw)
    g = raw.__globals__
    if raw.__code__.co_freevars:
        # closure: cannot recompile standalone
        raise HarnessError("strip_logs: %s has free variables %r" % (raw.__qualname__, raw.__code__.co_freevars))
    ns = {}
    code = compile(tree, filename, "exec")
    if extra_globals:
        # injected into the module's own namespace (process-local) so that later monkeypatching of the
        # module by the harness is still seen by the recompiled function
        g.update(extra_globals)
    exec(code, g, ns)
    new = ns[fdef.name]
    new.__qualname__ = raw.__qualname__
    new.__module__ = raw.__module__
    try:
        # keep the class-qualified name on the code object too (NS.__getattr__ finds the owning class by it)
        new.__code__ = new.__code__.replace(co_qualname=raw.__qualname__)
    except (TypeError, ValueError):
        pass
    return new


def strip_method(cls, name, **kw):
    """Replace cls.name in this process by its log-stripped recompilation."""
    orig = cls.__dict__[name]
    new = strip_logs(orig, **kw)
    if isinstance(orig, staticmethod):
        new = staticmethod(new)
    elif isinstance(orig, classmethod):
        new = classmethod(new)
    setattr(cls, name, new)
    return new


def strip_class_consts(cls, consts, skip=()):
    """Apply strip_method(cls, name, consts=consts) to every plain method of `cls` whose source contains one of
    the literals (so that a cut such as `b"\\x00" * n` -> zero run keeps applying when a refactor moves the
    expression into a new helper method).  Returns the list of method names recompiled."""
    done = []
    for name, attr in list(vars(cls).items()):
        if name in skip or not isinstance(attr, (types.FunctionType, staticmethod, classmethod)):
            continue
        fn = attr.__func__ if isinstance(attr, (staticmethod, classmethod)) else attr
        if fn.__code__.co_freevars:
            continue
        try:
            tree = ast.parse(textwrap.dedent(inspect.getsource(fn)))
        except (OSError, TypeError, SyntaxError):
            continue
        found = any(isinstance(n, ast.Constant) and any(type(n.value) is type(k) and n.value == k for k in consts)
                    for n in ast.walk(tree))
        if found:
            strip_method(cls, name, consts=consts)
            done.append(name)
    return done


def nested_function_source(outer, inner_name):
    """Source text (dedented) of a function nested inside `outer` (by name)."""
    src = textwrap.dedent(inspect.getsource(outer))
    tree = ast.parse(src)
    for node in ast.walk(tree):
        if isinstance(node, (ast.FunctionDef, ast.AsyncFunctionDef)) and node.name == inner_name and node is not tree.body[0]:
            return ast.unparse(node)
    raise HarnessError("no nested function %s in %s" % (inner_name, outer))


# ---------------------------------------------------------------------------
# ProvBuf: byte-sequence stand-in that records provenance instead of contents.
# ---------------------------------------------------------------------------

class ProvBuf(object):
    """
    A sequence of runs (tag, src_off, length): `length` bytes taken from source `tag`
    starting at source offset `src_off`.  tag ZERO means literal NUL bytes (src_off
    ignored).  Supports len, slicing (step 1), +, truthiness, == (provenance
    equality, position by position), and at(p).
    """
    ZERO = "\0zero"
    __slots__ = ("runs",)

    def __init__(self, runs=()):
        self.runs = [(t, o, n) for (t, o, n) in runs if n > 0]

    @classmethod
    def src(cls, tag, length, off=0):
        return cls([(tag, off, length)])

    @classmethod
    def zeros(cls, n):
        return cls([(cls.ZERO, 0, n)])

    def __len__(self):
        total = 0
        for (_, _, n) in self.runs:
            total = total + n
        return total

    def __bool__(self):
        return len(self.runs) > 0

    def at(self, p):
        """(tag, source offset) of the byte at index p; None if out of range."""
        if p < 0:
            return None
        base = 0
        for (t, o, n) in self.runs:
            if p < base + n:
                if t == self.ZERO:
                    return (t, 0)
                return (t, o + (p - base))
            base = base + n
        return None

    def __getitem__(self, key):
        if not isinstance(key, slice):
            raise HarnessError("ProvBuf: only slices are supported")
        if key.step not in (None, 1):
            raise HarnessError("ProvBuf: step slices are not supported")
        ln = len(self)
        start, stop = key.start, key.stop
        if start is None:
            start = 0
        elif start < 0:
            start = start + ln
            if start < 0:
                start = 0
        elif start > ln:
            start = ln
        if stop is None:
            stop = ln
        elif stop < 0:
            stop = stop + ln
            if stop < 0:
                stop = 0
        elif stop > ln:
            stop = ln
        out = []
        base = 0
        for (t, o, n) in self.runs:
            lo = base if base > start else start
            hi = base + n if base + n < stop else stop
            if lo < hi:
                out.append((t, o + (lo - base), hi - lo))
            base = base + n
        return ProvBuf(out)

    def __add__(self, other):
        if isinstance(other, ProvBuf):
            return ProvBuf(self.runs + other.runs)
        if isinstance(other, (bytes, bytearray)):
            if len(other) == 0:
                return ProvBuf(self.runs)
            if bytes(other) == b"\x00" * len(other):
                return ProvBuf(self.runs + [(self.ZERO, 0, len(other))])
        return NotImplemented

    def __radd__(self, other):
        if isinstance(other, (bytes, bytearray)):
            if len(other) == 0:
                return ProvBuf(self.runs)
            if bytes(other) == b"\x00" * len(other):
                return ProvBuf([(self.ZERO, 0, len(other))] + self.runs)
        return NotImplemented

    def _canon(self):
        out = []
        for (t, o, n) in self.runs:
            if t == self.ZERO:
                o = 0
            if out and out[-1][0] == t and (t == self.ZERO or out[-1][1] + out[-1][2] == o):
                out[-1] = (t, out[-1][1], out[-1][2] + n)
            else:
                out.append((t, o, n))
        return out

    def __eq__(self, other):
        if isinstance(other, (bytes, bytearray)) and len(other) == 0:
            return len(self.runs) == 0
        if not isinstance(other, ProvBuf):
            return NotImplemented
        return self._canon() == other._canon()

    def __ne__(self, other):
        r = self.__eq__(other)
        if r is NotImplemented:
            return r
        return not r

    __hash__ = None

    def __repr__(self):
        return "ProvBuf(%r)" % (self.runs,)

    def render(self, sources):
        """Concrete bytes, given {tag: bytes} (used by self-tests and replays)."""
        out = b""
        for (t, o, n) in self.runs:
            if t == self.ZERO:
                out += b"\x00" * n
            else:
                out += sources[t][o:o + n]
        return out


def provbuf_selftest():
    """Differential check of ProvBuf slicing/concat against real bytes (all slices of short strings)."""
    srcs = {"A": b"abcdefg", "B": b"0123"}
    bufs = [ProvBuf.src("A", 7), ProvBuf.src("A", 3, 2) + ProvBuf.src("B", 4) + ProvBuf.zeros(2), ProvBuf()]
    n = 0
    for b in bufs:
        real = b.render(srcs)
        if len(b) != len(real):
            raise HarnessError("ProvBuf self-test: len")
        for i in range(-len(real) - 2, len(real) + 3):
            for j in list(range(-len(real) - 2, len(real) + 3)) + [None]:
                for ii in (i, None):
                    if b[ii:j].render(srcs) != real[ii:j]:
                        raise HarnessError("ProvBuf self-test: slice %r:%r of %r" % (ii, j, b))
                    n += 1
    return n


# ---------------------------------------------------------------------------
# FakeStruct: field-list packing with the real range checks and sizes.
# ---------------------------------------------------------------------------

class PackedFields(object):
    """Result of FakeStruct.pack: remembers format and field values; has the real length."""
    __slots__ = ("fmt", "values", "size")

    def __init__(self, fmt, values, size):
        self.fmt, self.values, self.size = fmt, tuple(values), size

    def __len__(self):
        return self.size

    def _layout(self):
        """[(byte offset, byte size, code)] of the fields, from the real struct module."""
        import struct as _s
        order = self.fmt[0] if self.fmt[:1] in "<>!=@" else ""
        out = []
        pos = 0
        for (code, n) in FakeStruct._fields(self.fmt):
            f = ("%ds" % n) if code == "s" else code
            sz = _s.calcsize(order + f)
            out.append((pos, sz, f))
            pos += sz
        return order, out

    def __getitem__(self, key):
        """Slices that fall on field boundaries give a PackedFields of the covered fields."""
        if not isinstance(key, slice) or key.step not in (None, 1):
            raise HarnessError("PackedFields: only plain slices")
        start = 0 if key.start is None else key.start
        stop = self.size if key.stop is None else key.stop
        if start < 0:
            start = max(0, start + self.size)
        if stop < 0:
            stop = max(0, stop + self.size)
        stop = min(stop, self.size)
        start = min(start, self.size)
        order, lay = self._layout()
        vals, codes = [], []
        for (pos, sz, f), v in zip(lay, self.values):
            if start <= pos and pos + sz <= stop:
                vals.append(v)
                codes.append(f)
            elif pos + sz <= start or pos >= stop:
                continue
            else:
                raise FieldMisaligned("PackedFields: slice [%r:%r] splits a field of %r" % (start, stop, self.fmt))
        return PackedFields(order + "".join(codes), vals, stop - start if stop > start else 0)

    def __eq__(self, other):
        return isinstance(other, PackedFields) and self.fmt == other.fmt and self.values == other.values

    def __ne__(self, other):
        return not self.__eq__(other)

    __hash__ = None

    def __repr__(self):
        return "PackedFields(%r, %r)" % (self.fmt, self.values)


class FakeStruct(object):
    """
    Drop-in for the `struct` module name inside a module under test: pack() returns a
    PackedFields record (no bit arithmetic), unpack() returns the recorded values.
    Range checks and sizes are the real ones (derived from the real struct module).
    Integer codes only (B H L Q and their signed forms), plus `Ns` byte strings.
    """
    import struct as _real
    error = _real.error
    _RANGES = {"B": (0, 1 << 8), "H": (0, 1 << 16), "L": (0, 1 << 32), "I": (0, 1 << 32), "Q": (0, 1 << 64),
               "b": (-(1 << 7), 1 << 7), "h": (-(1 << 15), 1 << 15), "l": (-(1 << 31), 1 << 31),
               "i": (-(1 << 31), 1 << 31), "q": (-(1 << 63), 1 << 63)}

    @classmethod
    def _fields(cls, fmt):
        if isinstance(fmt, bytes):
            fmt = fmt.decode("ascii")
        body = fmt.lstrip("<>!=@")
        out = []
        num = ""
        for ch in body:
            if ch.isdigit():
                num += ch
                continue
            if ch == " ":
                continue
            if ch == "s":
                out.append(("s", int(num or "1")))
            elif ch == "x":
                pass
            else:
                for _ in range(int(num or "1")):
                    out.append((ch, None))
            num = ""
        return out

    @classmethod
    def calcsize(cls, fmt):
        return cls._real.calcsize(fmt)

    @classmethod
    def pack(cls, fmt, *values):
        fields = cls._fields(fmt)
        if len(fields) != len(values):
            raise cls.error("pack expected %d items for packing (got %d)" % (len(fields), len(values)))
        for (code, n), v in zip(fields, values):
            if code == "s":
                continue
            lo, hi = cls._RANGES[code]
            if not (lo <= v < hi):
                raise cls.error("'%s' format requires %d <= number <= %d" % (code, lo, hi - 1))
        return PackedFields(fmt if isinstance(fmt, str) else fmt.decode("ascii"), values, cls._real.calcsize(fmt))

    @classmethod
    def unpack(cls, fmt, data):
        if isinstance(fmt, bytes):
            fmt = fmt.decode("ascii")
        if not isinstance(data, PackedFields):
            raise HarnessError("FakeStruct.unpack on %r" % (type(data),))
        if len(data) != cls._real.calcsize(fmt):
            raise cls.error("unpack requires a buffer of %d bytes" % cls._real.calcsize(fmt))
        if cls._fields(data.fmt) != cls._fields(fmt):
            raise FieldMisaligned("FakeStruct: format mismatch %r vs %r" % (data.fmt, fmt))
        if data.fmt[:1] in "<>!=@" and fmt[:1] in "<>!=@" and data.fmt[0] != fmt[0]:
            raise FieldMisaligned("FakeStruct: byte order mismatch %r vs %r" % (data.fmt, fmt))
        return tuple(data.values)


# ---------------------------------------------------------------------------
# Ideal hash: injective constructor over (tag, args) terms.
# ---------------------------------------------------------------------------

class IdealHash(object):
    """
    hash-consing table: h(tag, *args) returns a distinct `size`-byte token for each
    distinct argument tuple.  Arguments may be symbolic; equality against earlier
    entries is decided by the solver (comparison forks).
    """

    def __init__(self, size=32):
        self.size = size
        self.table = []

    def h(self, tag, *args):
        for (t, a, tok) in self.table:
            if t == tag and len(a) == len(args) and all(x == y for x, y in zip(a, args)):
                return tok
        n = len(self.table)
        tok = (b"H%03d" % n) + b"#" * (self.size - 4)
        self.table.append((tag, args, tok))
        return tok
