"""
./check <PROPERTY_ID> [--tier quick|thorough] [--only OB[,OB]] [--jobs N] [--strict] [--keep]
./check --replay <path>

Runs every obligation of the property (props/<ID>.py) for the tier, one worker
process per obligation case, 16-wide; writes evidence/<ID>.json; prints
VIOLATION / KNOWN-FINDING lines; exit 0 unless a replay-confirmed violation that
known_findings.json does not list was found (exit 1).
"""
import argparse
import concurrent.futures
import importlib
import json
import os
import shutil
import subprocess
import sys
import time

ROOT = os.path.dirname(os.path.dirname(os.path.abspath(__file__)))


def load_known(prop):
    path = os.path.join(ROOT, "known_findings.json")
    if not os.path.exists(path):
        return []
    with open(path) as f:
        data = json.load(f)
    return [e for e in data.get("findings", []) if e.get("property") == prop]


def run_worker(prop, ob, case, tier, workdir, bounds, known_classes, hard_timeout):
    cmd = [sys.executable, "-m", "vlib.worker", prop, ob.name, case, tier, workdir,
           json.dumps(bounds), json.dumps(known_classes)]
    t0 = time.time()
    try:
        p = subprocess.run(cmd, capture_output=True, text=True, timeout=hard_timeout, cwd=ROOT)
        out = p.stdout
        for line in reversed(out.splitlines()):
            if line.startswith("RESULT:"):
                res = json.loads(line[len("RESULT:"):])
                res["stderr_tail"] = p.stderr[-600:] if res.get("status") == "error" else ""
                return res
        return {"status": "error", "case": case, "obligation": ob.name, "bounds": bounds,
                "detail": "worker produced no result (rc=%s)\n%s\n%s" % (p.returncode, out[-800:], p.stderr[-1500:]),
                "wall_s": round(time.time() - t0, 2)}
    except subprocess.TimeoutExpired:
        return {"status": "inconclusive", "case": case, "obligation": ob.name, "bounds": bounds,
                "detail": "worker exceeded hard wall timeout %ss" % hard_timeout, "wall_s": round(time.time() - t0, 2)}


def main(argv=None):
    ap = argparse.ArgumentParser()
    ap.add_argument("prop", nargs="?")
    ap.add_argument("--tier", default=os.environ.get("VERIF_TIER") or "quick", choices=["quick", "thorough"])
    ap.add_argument("--only", default="")
    ap.add_argument("--jobs", type=int, default=int(os.environ.get("VERIF_JOBS", "16")))
    ap.add_argument("--strict", action="store_true", help="exit 3 if any obligation is inconclusive/error (developer use)")
    ap.add_argument("--replay", default=None)
    ap.add_argument("--no-evidence", action="store_true")
    args = ap.parse_args(argv)

    if args.replay:
        env = dict(os.environ)
        env["VERIF_REPLAY"] = "1"
        return subprocess.call([sys.executable, args.replay], env=env)

    prop = args.prop
    if not prop:
        ap.error("property id required")
    seed = int(os.environ.get("VERIF_SEED", "0") or 0)
    tier = args.tier
    sys.path[:0] = [ROOT, os.path.join(ROOT, "harness")]
    t0 = time.time()
    pm = importlib.import_module("props." + prop)
    only = set(x for x in args.only.split(",") if x)
    known = load_known(prop)

    workdir = os.path.join(ROOT, ".work", "%s-%d" % (prop, os.getpid()))
    os.makedirs(workdir, exist_ok=True)
    jobs = []
    for ob in pm.OBLIGATIONS:
        if tier not in ob.tiers:
            continue
        if only and ob.name not in only:
            continue
        kc = [e["class"] for e in known if e.get("obligation") in (ob.name, "*")]
        for (case, bounds) in ob.expand(tier):
            jobs.append((ob, case, bounds, kc))
    # longest first
    jobs.sort(key=lambda j: -j[0].timeout[tier])
    results = []
    try:
        with concurrent.futures.ThreadPoolExecutor(max_workers=max(1, args.jobs)) as ex:
            futs = {}
            for (ob, case, bounds, kc) in jobs:
                hard = ob.timeout[tier] * 3 + ob.twin_timeout * 2 + 240
                futs[ex.submit(run_worker, prop, ob, case, tier, workdir, bounds, kc, hard)] = (ob, case)
            for fut in concurrent.futures.as_completed(futs):
                ob, case = futs[fut]
                r = fut.result()
                r["_ob"] = ob
                results.append(r)
                line = "%-11s %s/%s  paths=%s z3q=%s cpu=%ss wall=%ss" % (
                    r.get("status", "?").upper(), prop, r.get("case"), r.get("paths", 0), r.get("z3_queries", r.get("queries", 0)),
                    r.get("cpu_s", "?"), r.get("wall_s", "?"))
                print(line)
                if r.get("status") in ("inconclusive", "error"):
                    print("    " + str(r.get("detail", "")).replace("\n", "\n    ")[:3000])
                    if r.get("stderr_tail"):
                        print("    stderr: " + r["stderr_tail"].replace("\n", "\n    "))
                sys.stdout.flush()
    finally:
        shutil.rmtree(workdir, ignore_errors=True)
        try:
            os.rmdir(os.path.join(ROOT, ".work"))
        except OSError:
            pass

    results.sort(key=lambda r: r.get("case", ""))
    violations = [r for r in results if r.get("status") == "violated"]
    n_ob = len(results)
    n_dis = sum(1 for r in results if r.get("status") == "discharged")
    n_inc = sum(1 for r in results if r.get("status") == "inconclusive")
    n_err = sum(1 for r in results if r.get("status") == "error")
    n_known = sum(1 for r in results if r.get("status") == "known")
    known_lines = []
    for r in results:
        for h in r.get("known_hits", []):
            what = next((e.get("what", "") for e in known if e["class"] == h["class"]), "")
            known_lines.append("KNOWN-FINDING: property=%s obligation=%s class=%s %s [witness %s]" % (
                prop, r.get("case"), h["class"], what, h.get("call") or h.get("witness", "")))
    for ln in known_lines:
        print(ln)
    for r in violations:
        print("VIOLATION property=%s replay=%s" % (prop, r.get("replay")))
        print("    obligation=%s class=%s input: %s" % (r.get("case"), r.get("witness_class"), r.get("call") or r.get("model")))
        if r.get("replay_output"):
            print("    " + r["replay_output"].strip().replace("\n", "\n    ")[-1200:])

    wall = round(time.time() - t0, 2)
    if not args.no_evidence and not only:
        write_evidence(prop, pm, tier, seed, results, wall, known_lines)
    print("SUMMARY property=%s tier=%s obligations=%d discharged=%d known=%d inconclusive=%d harness_errors=%d violations=%d wall=%ss" % (
        prop, tier, n_ob, n_dis, n_known, n_inc, n_err, len(violations), wall))
    if violations:
        return 1
    if args.strict and (n_inc or n_err):
        return 3
    return 0


def write_evidence(prop, pm, tier, seed, results, wall, known_lines):
    samples = []
    assumptions = list(getattr(pm, "ASSUMPTIONS", []))
    fns = {}
    cuts = []
    notes = []
    evaluations = 0
    z3q = 0
    z3t = 0.0
    cpu = 0.0
    nontrivial = 0
    for r in results:
        ob = r.get("_ob")
        evaluations += int(r.get("paths", 0) or 0) + int(r.get("queries", 0) or 0)
        z3q += int(r.get("z3_queries", r.get("queries", 0)) or 0)
        z3t += float(r.get("z3_time_s", r.get("solver_s", 0)) or 0)
        cpu += float(r.get("cpu_s", 0) or 0)
        if r.get("status") == "discharged" and (r.get("twin") == "POST_FAIL" or r.get("nonvacuous")):
            nontrivial += 1
        fns.update(r.get("functions_encoded", {}))
        for c in r.get("cuts", []):
            if c not in cuts:
                cuts.append(c)
        for n in r.get("notes", []):
            if n not in notes:
                notes.append(n)
        s = {"obligation": r.get("case"), "status": r.get("status"), "engine": r.get("engine"),
             "what": ob.desc if ob else "", "bounds": r.get("bounds"), "outside_claim": ob.outside if ob else "",
             "stubs": ob.stubs if ob else [], "paths_explored": r.get("paths", 0),
             "solver_queries": r.get("z3_queries", r.get("queries", 0)), "solver_time_s": r.get("z3_time_s", r.get("solver_s", 0)),
             "cpu_s": r.get("cpu_s"), "reachability_twin": r.get("twin", r.get("nonvacuous")),
             "twin_witness": r.get("twin_call")}
        if r.get("status") in ("violated", "known"):
            s["counterexample"] = r.get("call") or r.get("model")
            s["replay"] = r.get("replay")
        if r.get("known_hits"):
            s["known_findings_hit"] = r["known_hits"]
        if r.get("status") in ("inconclusive", "error"):
            s["detail"] = str(r.get("detail", ""))[:600]
        if r.get("info"):
            s["info"] = r["info"]
        samples.append(s)
    n_ob = len(results)
    n_dis = sum(1 for r in results if r.get("status") == "discharged")
    ev = {
        "property_id": prop,
        "tier": tier,
        "seed": seed,
        "level": "other",
        "coverage": {
            "explanation": getattr(pm, "EXPLANATION", "") or (
                "Bounded symbolic checking of the real functions from /repo's working tree: CrossHair (symbolic "
                "execution with z3) and direct z3/cvc5 queries; each obligation is decided for all values within its stated bounds."),
            "obligations": n_ob,
            "discharged": n_dis,
            "inconclusive": sum(1 for r in results if r.get("status") == "inconclusive"),
            "harness_errors": sum(1 for r in results if r.get("status") == "error"),
            "known_finding_obligations": sum(1 for r in results if r.get("status") == "known"),
            "evaluations": max(evaluations, 0),
            "distinct_nontrivial": nontrivial,
            "rule": "evaluations = symbolic paths decided by CrossHair plus direct solver queries; an obligation counts as "
                    "non-trivial when it was discharged AND its reachability twin (same preconditions, negated postcondition) "
                    "was refuted by a concrete witness, i.e. the assertion is reachable under the assumptions",
            "samples": samples,
            "solver_queries": z3q,
            "solver_time_s": round(z3t, 2),
            "engine_cpu_s": round(cpu, 2),
            "functions_encoded": fns,
            "repo_src": sorted(set(str(r.get("repo_src")) for r in results)),
            "source_cuts": cuts,
            "environment_stubs": notes,
            "known_finding_lines": known_lines,
            "checker_cmd": "./check %s --tier %s" % (prop, tier),
            "trusted_base": ["CrossHair 0.0.110 path exploration", "z3 5.1", "harness stubs listed per obligation"],
            "exhaustive": False,
        },
        "assumptions": assumptions,
        "wall_s": wall,
        "violations": sum(1 for r in results if r.get("status") == "violated"),
    }
    os.makedirs(os.path.join(ROOT, "evidence"), exist_ok=True)
    tmp = os.path.join(ROOT, "evidence", prop + ".json.tmp")
    with open(tmp, "w") as f:
        json.dump(ev, f, indent=1, default=str)
    os.replace(tmp, os.path.join(ROOT, "evidence", prop + ".json"))


if __name__ == "__main__":
    sys.exit(main())
