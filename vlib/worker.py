"""
Run ONE obligation (one case) in its own process and print a JSON result on the
last stdout line (prefixed with RESULT:).

usage: python -m vlib.worker <PROP> <obligation> <case_name> <tier> <workdir> <bounds_json> <known_classes_json>
"""
import collections
import importlib
import importlib.util
import json
import os
import re
import subprocess
import sys
import time
import traceback

ROOT = os.path.dirname(os.path.dirname(os.path.abspath(__file__)))
HARNESS_DIR = os.path.join(ROOT, "harness")

Z3STAT = {"queries": 0, "time": 0.0, "unknown": 0}


def instrument_z3():
    import z3
    orig = z3.Solver.check

    def check(self, *a, **kw):
        t = time.perf_counter()
        r = orig(self, *a, **kw)
        Z3STAT["time"] += time.perf_counter() - t
        Z3STAT["queries"] += 1
        if str(r) == "unknown":
            Z3STAT["unknown"] += 1
        return r
    z3.Solver.check = check


def load_harness(name):
    path = os.path.join(HARNESS_DIR, name + ".py")
    if name in sys.modules:
        return sys.modules[name]
    spec = importlib.util.spec_from_file_location(name, path)
    mod = importlib.util.module_from_spec(spec)
    sys.modules[name] = mod
    spec.loader.exec_module(mod)
    return mod


_CALL_RE = re.compile(r"when calling (.*?)(?: \(which (?:returns|raises) .*\))?$", re.S)


def analyze(fn, timeout, seed):
    from crosshair.core_and_libs import analyze_function, run_checkables
    from crosshair.options import AnalysisOptionSet
    from crosshair.statespace import MessageType
    import z3
    try:
        z3.set_param("smt.random_seed", int(seed) % (2 ** 31))
        z3.set_param("sat.random_seed", int(seed) % (2 ** 31))
    except Exception:
        pass
    stats = collections.Counter()
    t0 = time.process_time()
    q0, s0 = Z3STAT["queries"], Z3STAT["time"]
    checkables = analyze_function(fn, AnalysisOptionSet(per_condition_timeout=float(timeout), report_all=True, stats=stats))
    if not checkables:
        return {"state": "NO_CONDITIONS", "message": "no conditions found", "paths": 0, "cpu_s": 0.0,
                "z3_queries": 0, "z3_time_s": 0.0}
    msgs = run_checkables(checkables)
    out = {"paths": stats.get("num_paths", 0), "cpu_s": round(time.process_time() - t0, 3),
           "z3_queries": Z3STAT["queries"] - q0, "z3_time_s": round(Z3STAT["time"] - s0, 3)}
    # most severe message first
    order = [MessageType.SYNTAX_ERR, MessageType.IMPORT_ERR, MessageType.POST_FAIL, MessageType.EXEC_ERR,
             MessageType.POST_ERR, MessageType.PRE_UNSAT, MessageType.CANNOT_CONFIRM, MessageType.CONFIRMED]
    msgs = sorted(msgs, key=lambda m: order.index(m.state) if m.state in order else 0)
    if not msgs:
        out.update(state="NO_MESSAGE", message="")
        return out
    m = msgs[0]
    out.update(state=m.state.name, message=m.message, traceback=(m.traceback or "")[-1500:])
    mm = _CALL_RE.search(m.message or "")
    if mm:
        out["call"] = mm.group(1).strip()
    return out


def make_twin(mod, fn_name, workdir):
    """Compile a copy of harness function `fn_name` whose postcondition is negated."""
    import inspect
    src = inspect.getsource(getattr(mod, fn_name))
    if "post: _ == True" not in src:
        raise RuntimeError("harness function %s lacks 'post: _ == True'" % fn_name)
    twin_name = fn_name + "__twin"
    src = src.replace("post: _ == True", "post: _ != True")
    src = re.sub(r"^def %s\(" % re.escape(fn_name), "def %s(" % twin_name, src, count=1, flags=re.M)
    path = os.path.join(workdir, "twin_%s_%d.py" % (fn_name, os.getpid()))
    with open(path, "w") as f:
        f.write(src)
    code = compile(src, path, "exec")
    exec(code, mod.__dict__)
    return getattr(mod, twin_name)


REPLAY_TMPL = '''#!/verif/.venv/bin/python
# Replay of a solver counterexample against the real code (no symbolic engine).
# property={prop} obligation={case} tier={tier}
# exit 1 = violation reproduces, 0 = property holds on this input, 3/4 = harness problem
import os, sys, traceback
os.environ["VERIF_REPLAY"] = "1"
os.environ["VERIF_BOUNDS"] = {bounds!r}
os.environ["VERIF_EXCLUDE"] = "[]"
sys.path[:0] = [{root!r}, {hdir!r}]
from vlib.hlib import AssumeFailed, HarnessError
import importlib
m = importlib.import_module({harness!r})
CALL = {call!r}
print("REPLAY call:", CALL)
PATCH = None
if " with crosshair.patch_to_return(" in CALL:
    # CrossHair pinned the return values of nondeterministic functions (time.time, ...) on this path
    CALL, PATCH = CALL.split(" with ", 1)
class _NS(dict):
    def __missing__(self, k):
        return importlib.import_module(k)
try:
    if PATCH:
        import crosshair
        with eval(PATCH, _NS(crosshair=crosshair)):
            r = eval(CALL, vars(m))
    else:
        r = eval(CALL, vars(m))
except AssumeFailed:
    print("REPLAY: input does not satisfy an in-body assumption"); sys.exit(4)
except HarnessError as e:
    print("REPLAY: harness error", e); sys.exit(3)
except AttributeError as e:
    # a missing attribute on one of the harness's own fake objects means the harness cannot drive this
    # (possibly restructured) code: that is a harness problem, not a property result
    import inspect
    try:
        src = inspect.getsourcefile(type(getattr(e, "obj", None))) or ""
    except TypeError:
        src = ""
    traceback.print_exc()
    if src.startswith({root!r}):
        print("REPLAY: harness fake lacks attribute", repr(e)); sys.exit(3)
    # an object the harness built with __new__ (skipping __init__) lacks an attribute that the class's own
    # __init__ would have set: the harness under-initialised it for this (possibly restructured) code
    try:
        import re as _re2
        obj, nm = getattr(e, "obj", None), getattr(e, "name", None)
        if obj is not None and nm and not isinstance(obj, type):
            for klass in type(obj).__mro__:
                init = klass.__dict__.get("__init__")
                if init is None or not hasattr(init, "__code__"):
                    continue
                if _re2.search(r"self\.%s\s*(=|:)" % _re2.escape(nm), inspect.getsource(init)):
                    print("REPLAY: object built without __init__ lacks %r, which __init__ sets" % nm, repr(e)); sys.exit(3)
    except (OSError, TypeError):
        pass
    print("REPLAY: real code raised", repr(e)); sys.exit(1)
except TypeError as e:
    # "f() missing/takes/got ..." where f is one of the harness's own stand-ins: the (possibly restructured)
    # real code calls a fake with a signature the fake does not support -> harness problem, not a result
    import re as _re, types as _types
    traceback.print_exc()
    mm = _re.match(r"([\w.<>]+)\(\) (?:missing|takes|got)", str(e))
    def _harness_callables():
        out = set()
        for mod in list(sys.modules.values()):
            if not str(getattr(mod, "__file__", "") or "").startswith({root!r}):
                continue
            for v in list(vars(mod).values()):
                vs = [v]
                if isinstance(v, type) and getattr(v, "__module__", None) == mod.__name__:
                    vs += list(vars(v).values())
                for x in vs:
                    x = getattr(x, "__func__", x)
                    if isinstance(x, _types.FunctionType):
                        out.add(x.__qualname__)
        return out
    if mm and mm.group(1) in _harness_callables():
        print("REPLAY: a harness stand-in was called with an unsupported signature", repr(e)); sys.exit(3)
    print("REPLAY: real code raised", repr(e)); sys.exit(1)
except Exception as e:
    traceback.print_exc()
    print("REPLAY: real code raised", repr(e)); sys.exit(1)
if r is True or r == True:
    print("REPLAY: property held on this input"); sys.exit(0)
if isinstance(r, str) and r.lower().startswith("harness:"):
    # the harness's own consistency checks (recorders, stand-ins, models) failed: it cannot drive this
    # (possibly restructured) code -- a harness problem, never a property result
    print("REPLAY: harness self-check failed:", r); sys.exit(3)
print("REPLAY: property violated:", r); sys.exit(1)
'''


def run_replay(path):
    env = dict(os.environ)
    env["VERIF_REPLAY"] = "1"
    try:
        p = subprocess.run([sys.executable, path], capture_output=True, text=True, timeout=300, env=env)
    except subprocess.TimeoutExpired:
        return 5, "replay timed out"
    return p.returncode, (p.stdout + p.stderr)[-3000:]


def classify(mod, fn_name, call):
    table = getattr(mod, "CLASSIFY", {})
    f = table.get(fn_name)
    if f is None or call is None:
        return None
    try:
        ns = dict(vars(mod))
        ns["__cap"] = f
        call = call.split(" with crosshair.patch_to_return(")[0]
        return str(eval("__cap" + call[call.index("("):], ns))
    except Exception as e:  # classification failure is not a property result
        return "unclassified(%s)" % (e,)


def run_chx(prop, ob, case, tier, workdir, bounds, known, seed):
    from vlib import hlib
    res = {"engine": "crosshair+z3"}
    instrument_z3()
    os.environ["VERIF_BOUNDS"] = json.dumps(bounds)
    excluded = []
    known_hits = []
    total = {"paths": 0, "cpu_s": 0.0, "z3_queries": 0, "z3_time_s": 0.0}
    try:
        os.environ["VERIF_EXCLUDE"] = "[]"
        mod = load_harness(ob.harness)
    except Exception:
        res.update(status="error", detail="harness import failed:\n" + traceback.format_exc()[-2500:])
        return res
    fn = getattr(mod, ob.fn)
    deadline = time.time() + ob.timeout[tier] * 1.5 + 60
    rounds = 0
    while True:
        rounds += 1
        os.environ["VERIF_EXCLUDE"] = json.dumps(excluded)
        if hasattr(mod, "EXCLUDED"):
            mod.EXCLUDED[:] = excluded
        try:
            a = analyze(fn, ob.timeout[tier], seed)
        except Exception:
            res.update(status="error", detail="analysis crashed:\n" + traceback.format_exc()[-2500:])
            return res
        for k in total:
            total[k] += a.get(k, 0)
        st = a["state"]
        if st in ("POST_FAIL", "EXEC_ERR", "POST_ERR") and a.get("call"):
            cls = classify(mod, ob.fn, a["call"])
            rdir = os.path.join(ROOT, "replays", prop)
            os.makedirs(rdir, exist_ok=True)
            rpath = os.path.join(rdir, re.sub(r"[^A-Za-z0-9_.-]", "_", case) + (".r%d" % rounds if rounds > 1 else "") + ".py")
            with open(rpath, "w") as f:
                f.write(REPLAY_TMPL.format(prop=prop, case=case, tier=tier, bounds=json.dumps(bounds), root=ROOT,
                                           hdir=HARNESS_DIR, harness=ob.harness, call=a["call"]))
            os.chmod(rpath, 0o755)
            rc, rout = run_replay(rpath)
            if rc == 1:
                if cls is not None and cls in known and cls not in excluded and hasattr(mod, "EXCLUDED") and time.time() < deadline:
                    known_hits.append({"class": cls, "call": a["call"], "replay": rpath})
                    excluded.append(cls)
                    continue
                res.update(status="violated", call=a["call"], message=a["message"], witness_class=cls,
                           replay=rpath, replay_output=rout[-1500:])
                if cls is not None and cls in known:
                    # known class but harness cannot exclude it: report as known, obligation stays undischarged
                    known_hits.append({"class": cls, "call": a["call"], "replay": rpath})
                    res["status"] = "known"
                break
            else:
                res.update(status="error", call=a["call"], message=a["message"],
                           detail="counterexample did not reproduce under replay (rc=%s):\n%s" % (rc, rout[-1500:]),
                           replay=rpath)
                break
        elif st == "CONFIRMED":
            res.update(status="discharged")
            break
        elif st in ("CANNOT_CONFIRM", "PRE_UNSAT", "NO_MESSAGE"):
            res.update(status="inconclusive", detail="%s: %s" % (st, a.get("message")))
            break
        else:
            res.update(status="error", detail="%s: %s\n%s" % (st, a.get("message"), a.get("traceback", "")))
            break
    res.update(total)
    res["rounds"] = rounds
    res["known_hits"] = known_hits
    res["excluded_classes"] = excluded
    # reachability twin (vacuity guard)
    if res.get("status") == "discharged":
        try:
            twin = make_twin(mod, ob.fn, workdir)
            t = analyze(twin, ob.twin_timeout, seed)
            res["twin"] = t["state"]
            res["twin_call"] = t.get("call")
            res["twin_paths"] = t.get("paths", 0)
            if t["state"] != "POST_FAIL":
                res["status"] = "inconclusive"
                res["detail"] = "reachability twin not violated (%s: %s): obligation may be vacuous" % (t["state"], t.get("message"))
        except Exception:
            res["status"] = "error"
            res["detail"] = "twin failed:\n" + traceback.format_exc()[-1500:]
    res["cuts"] = list(hlib.CUTS)
    res["functions_encoded"] = dict(hlib.ENCODED)
    res["notes"] = list(dict.fromkeys(hlib.NOTES + list(getattr(mod, "NOTES", []))))
    return res


def run_py(prop, ob, case, tier, workdir, bounds, known, seed):
    from vlib import hlib
    res = {"engine": "z3/cvc5 direct"}
    t0 = time.process_time()
    try:
        pm = importlib.import_module("props." + prop)
        fn = ob.fn if callable(ob.fn) else getattr(pm, ob.fn)
        ctx = {"bounds": bounds, "tier": tier, "seed": seed, "workdir": workdir, "known": known, "case": case}
        out = fn(ctx)
    except hlib.HarnessError as e:
        res.update(status="error", detail="harness error: %s" % (e,))
        return res
    except Exception:
        res.update(status="error", detail="obligation crashed:\n" + traceback.format_exc()[-2500:])
        return res
    res.update(out)
    res.setdefault("cpu_s", round(time.process_time() - t0, 3))
    res.setdefault("paths", 0)
    res.setdefault("known_hits", [])
    if res.get("status") == "violated":
        src = res.pop("replay_src", None)
        if src is None:
            res.update(status="error", detail="violation without replay script")
        else:
            rdir = os.path.join(ROOT, "replays", prop)
            os.makedirs(rdir, exist_ok=True)
            rpath = os.path.join(rdir, re.sub(r"[^A-Za-z0-9_.-]", "_", case) + ".py")
            with open(rpath, "w") as f:
                f.write(src)
            os.chmod(rpath, 0o755)
            rc, rout = run_replay(rpath)
            res["replay"] = rpath
            res["replay_output"] = rout[-1500:]
            if rc != 1:
                res.update(status="error", detail="counterexample did not reproduce under replay (rc=%s):\n%s" % (rc, rout[-1500:]))
    else:
        res.pop("replay_src", None)
    res.setdefault("cuts", list(hlib.CUTS))
    fe = dict(hlib.ENCODED)
    fe.update(res.get("functions_encoded", {}))
    res["functions_encoded"] = fe
    res.setdefault("notes", list(hlib.NOTES))
    return res


def main(argv):
    prop, obname, case, tier, workdir, bounds_json, known_json = argv[:7]
    seed = int(os.environ.get("VERIF_SEED", "0") or 0)
    sys.path[:0] = [ROOT, HARNESS_DIR]
    bounds = json.loads(bounds_json)
    known = json.loads(known_json)
    t0 = time.time()
    try:
        pm = importlib.import_module("props." + prop)
        ob = [o for o in pm.OBLIGATIONS if o.name == obname][0]
        if ob.kind == "chx":
            res = run_chx(prop, ob, case, tier, workdir, bounds, known, seed)
        else:
            res = run_py(prop, ob, case, tier, workdir, bounds, known, seed)
    except Exception:
        res = {"status": "error", "detail": "worker crashed:\n" + traceback.format_exc()[-2500:]}
    res["wall_s"] = round(time.time() - t0, 2)
    try:
        import allmydata
        res["repo_src"] = os.path.dirname(os.path.dirname(os.path.abspath(allmydata.__file__)))
    except Exception:
        res["repo_src"] = None
    res["case"] = case
    res["obligation"] = obname
    res["bounds"] = bounds
    sys.stdout.flush()
    print("RESULT:" + json.dumps(res, default=str))


if __name__ == "__main__":
    main(sys.argv[1:])
